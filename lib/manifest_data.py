"""Source of MANIFEST.json (bin/mkmanifest writes it).  One entry per claimed property."""
import json
import os

HERE = os.path.dirname(os.path.dirname(os.path.abspath(__file__)))

COMMON_NOTE = ("Trusted: Coq 8.16.1 kernel (vm_compute in Examples only, no native_compute); no axioms (Print Assumptions = closed for every property "
               "theorem, audited on every run); the python translator for the constructs it reads; the Rust harness; extraction (ExtrOcamlBasic only) and "
               "the OCaml driver, for the correspondence check only. ")

CHECKS = {
    'C13': {
        'technique': 'machine-checked proof in Coq over the translated iterator body + differential correspondence against the real iterator',
        'text': ("The body of BackoffStrategyIter::next is translated to Gallina on every run; Coq proves, for every configuration (any strategy, step, "
                 "factor, max_attempts < u32::MAX, optional max delay), any number of calls and both overflow-check profiles, that the iterator yields "
                 "exactly the law's schedule (count, numbering from 1, step / step*n / step*factor^(n-1), saturated at Duration::MAX, clamped to the "
                 "maximum) and never panics. The real iterator is run on seeded boundary/random configurations and compared with the extracted model and the law."),
        'note': "Modelled, not verified: core::time::Duration and integer primitives (theories/RustArith.v), validated by the differential.",
        'design': 'DESIGN.md section 3 C13',
    },
    'C07': {
        'technique': 'machine-checked proof in Coq (regex matcher sound+complete, grammar theorem over regenerated regexes) + differential correspondence',
        'text': ("The two regexes and the reserved word are re-read from protocol/src/topic_name.rs on every run; Coq proves over all strings (lists of "
                 "Unicode scalar values, unbounded) that try_from accepts exactly /ns/tp with both parts 3..64 of [A-Za-z0-9_-] and ns not starting with "
                 "the reserved word, rejects everything else with an error and never panics, that printing and parsing are inverse, that is_valid (the "
                 "server-side rule) and create() are the same rule, and that printing is injective (distinct names never alias). The real TopicName API "
                 "is run on boundary-structured strings and compared with the extracted model and the grammar."),
        'note': "Modelled, not verified: the regex crate on the translated fragment, str::get/starts_with. Server-side refusal over QUIC and traffic isolation are exercised by the net scenarios (C11/C01 checks), not proved here.",
        'design': 'DESIGN.md section 3 C07',
    },
}

CHECKS['C05'] = {
    'technique': 'machine-checked proof in Coq (codec combinators, frame codec, streaming decoder by induction over chunks, batch codec) over regenerated layouts + byte-exact differential correspondence',
    'text': ("Frame type, serde layouts (field order/types), type tags, get_length/write_to_bytes/try_from arms and the limit constants are regenerated "
             "from protocol/src on every run and their codecs re-proved by generic tactics. Coq proves for all frames of all eight kinds and all header orders: "
             "decode(encode f ++ rest) = (f, rest); prefix = payload length; for every list of frames and EVERY chunking of the concatenated bytes the "
             "streaming decoder yields exactly that list and an empty buffer; the encoder refuses exactly payloads > 1 MiB; a prefix > 1 MiB is refused as soon "
             "as 9 bytes are present; unbatch(batch ms) = ms. The real MessageCodec and batch functions are run on seeded structured/malformed inputs and "
             "compared byte-for-byte with the extracted model; the property predicate is evaluated on the implementation's own outputs."),
    'note': "Modelled, not verified: bincode fixint LE format, serde derive order, bytes/tokio_util buffer mechanics (validated by the differential).",
    'design': 'DESIGN.md section 3 C05',
}

CHECKS['C06'] = {
    'technique': 'machine-checked proof in Coq (totality of selium\'s own decoders with explicit panic outcomes) + malformed-input differential in child processes',
    'text': ("Partial by nature. Proved for ALL byte strings, with slice indexing / get_u64 / get_u8 / split_to / loop fuel as explicit Panic outcomes: the frame decoder "
             "answers Need/Fail/Got and never panics, reserves no more than it already buffers; the streaming loop terminates; decode_message_batch never panics and "
             "reserves at most input/8 slots. NOT proved: the internals of bincode and of the five decompression libraries; for those, and to tie the model to the code, "
             "malformed inputs (truncations, bit flips, adversarial length prefixes, random bytes) are run through every real decoder in child processes under a 1 GiB "
             "address-space limit; panics and aborts are violations."),
    'note': "Third-party decoders are exercised, not verified. Subscriber pipeline composition is exercised by the C03 net scenarios.",
    'design': 'DESIGN.md section 3 C06',
}

CHECKS['C01'] = {
    'technique': 'machine-checked proof in Coq (invariant over a labelled transition system of the router, all schedules) + trace-acceptor correspondence against the real router under scripted mocks',
    'text': ("pubsub::Topic::poll, FanoutMany and StreamMap::poll_next are modelled as an executable transition system whose observable events are the calls on peer "
             "sinks/streams and their answers. Coq proves for EVERY accepted trace (any numbers of publishers/subscribers, any registration order, any Ready/Pending/Err/"
             "item/end answers, any StreamMap start index): each subscriber receives a prefix of exactly the items pulled since its registration was processed - in order, "
             "contiguous, none duplicated or skipped - a live one misses at most the item in flight; no panic; and a poll in which no sink answers Pending returns only "
             "after everything pulled was delivered and flushed (from every reachable state). The real Topic future is driven with scripted mock peers under a busy and a "
             "wake-driven executor; every implementation trace must be accepted event-for-event by the extracted model (including predicted wake-up bits), and the "
             "property predicates are evaluated on the implementation traces themselves. Cross-topic isolation: routers are separate objects selected by TopicName "
             "(C07 proves printing injective); over QUIC it is exercised by the net scenarios."),
    'note': "Modelled, not verified: StreamMap 0.1.14, futures::mpsc receiver/waker discipline, Vec::swap_remove (validated by the acceptor). Payloads abstract (the router only clones).",
    'design': 'DESIGN.md section 3 C01',
}

ROUTER_NOTE = ("Modelled, not verified: StreamMap 0.1.14, HashMap iteration order (read from the trace), futures::mpsc receiver/waker discipline, "
               "Vec::swap_remove - validated event-for-event (incl. wake-up bits) by the acceptor on every implementation trace. Executor contract (re-poll after wake) assumed.")

CHECKS['C02'] = {
    'technique': 'machine-checked proof in Coq (invariants of the req/rep router LTS: reply accounting, origin tagging, order and at-most-once of requests and replies by a step-effect argument) + trace-acceptor correspondence and trace predicates',
    'text': ("reqrep::Topic::poll and Router (Sink<Frame>) are modelled as an executable transition system; the real Topic future is driven with scripted requestors/repliers "
             "(forged/junk tags, colliding req_ids, out-of-order and junk replies, bursts of repliers) and every implementation trace must be accepted event-for-event, "
             "with exact frames (tag overwritten on requests, tag stripped on replies, other headers and payload intact) and wake-up bits. PROVED for every accepted trace: "
             "every reply pulled is forwarded, refused by its own requestor's sink or discarded for its tag, except the one buffered - none overwritten or lost however slow "
             "requestors are; every request handed to a replier is a pulled request carrying the router-assigned key (origin unforgeable, rest intact); the requests handed to repliers are, in "
             "order, a subsequence of the requests pulled from requestors (at most once each, in sending order, only the tag changed); the replies delivered are, in order, a subsequence of "
             "what the replier's emissions deserve - the requestor holding the key of the tag, tag stripped, rest intact - so each reply goes at most once to the requestor it answers and to "
             "nobody else, and a reply with a missing/unknown/malformed tag is delivered to no one; every pulled request is handed over, refused by the replier's own sink, superseded in the "
             "one-request buffer or still buffered, and it is superseded only while NO replier is bound (exactly once under a bound replier). and a reply is discarded only for a missing/malformed tag, a key not yet issued when it was emitted, "
             "or a requestor no longer registered - never one that is still connected. Not a theorem: liveness (a bound replier is eventually offered the buffered request, deserved replies are "
             "eventually delivered and flushed), checked on drained implementation traces."),
    'note': ROUTER_NOTE,
    'design': 'DESIGN.md section 3 C02',
}
CHECKS['C08'] = {
    'technique': 'machine-checked proof in Coq (pub/sub invariant under arbitrary failures; eviction lemma; req/rep totality) + fault-injecting trace-acceptor correspondence',
    'text': ("PROVED for every accepted trace of the pub/sub router model, with any peer failing at any operation at any point: every subscriber (in particular every healthy one) "
             "holds a gap-free, in-order, duplicate-free prefix of what was pulled since its registration, missing at most the item in flight; an Err answer evicts exactly the "
             "answering subscriber; no panic. For the req/rep router: no panic for any failure/frame/schedule and no reply lost. Unbinding of a failed replier and re-binding, and "
             "non-interference between requestors, are carried by the model and checked by the acceptor and the trace predicates on every implementation trace with injected "
             "errors (sink ready/send/flush errors, stream errors and ends), not yet theorems."),
    'note': ROUTER_NOTE,
    'design': 'DESIGN.md section 3 C08',
}
CHECKS['C09'] = {
    'technique': 'machine-checked proof in Coq (bounded work per poll and no spin for both routers by a potential argument, never parks unarmed, no sleep on undone work) + wake-bit trace-acceptor correspondence, spin watchdog and wake-driven executor runs',
    'text': ("PROVED (pub/sub): from every reachable state, a poll in which no subscriber answers Pending returns only after everything pulled was delivered to every live subscriber "
             "and flushed. The model predicts for every environment action (queue a socket, close the channel, fire a peer's kept waker) whether the router task is woken; every "
             "implementation trace must agree bit for bit, which is what exposes a registration channel left unarmed. Every generated history ends with a wake-driven phase (sinks "
             "ready, task polled only when woken) after which everything must be delivered/flushed (pub/sub) resp. every deserved reply delivered (req/rep) and, after close, the "
             "future must have completed. Bounded work per poll: predicate on implementation traces (calls per poll <= linear in data consumed), a 20000-call spin limit and a 4 s "
             "watchdog for mock-free spins. PROVED for both routers, every accepted trace: whenever a poll is about to return Pending, either a peer sink holds the task's waker (the router is "
             "blocked on it) or the registration channel does, having been polled to Pending in that very poll - neither router ever parks without a registered waker (the repaired "
             "defect parked on streams alone with the channel unarmed); and when a poll returns Pending in a step in which no sink answered Pending, the buffers are empty - pub/sub: the pulled "
             "message has been handed over; req/rep: no reply and no rejection waits, a request waits only if no replier is bound. PROVED for both routers, from ANY state: a poll makes at most "
             "(data + queued + 1) * cap calls on its peers (data = calls that handed it a frame, queued = registrations waiting; cap linear in the numbers of sinks, streams and queued "
             "registrations) - a potential argument over the control points of the loop - and between two peer calls the loop makes finitely many moves (a strictly decreasing measure over "
             "the internal moves: no spin with no replier, no requestor or nothing connected). PROVED (pub/sub): whenever a poll is about to return Pending, a subscriber sink holds the task's waker or "
             "EVERY publisher stream in the map does (each was asked in that poll and answered Pending last; the invariant follows the StreamMap pass through swap_remove under the cursor). "
             "PROVED (request/reply): the same, and the bound replier's stream holds the waker too - what server_pending / stream_pending must mean whenever the loop leaves through them."),
    'note': ROUTER_NOTE,
    'design': 'DESIGN.md section 3 C09',
}
CHECKS['C10'] = {
    'technique': 'machine-checked proof in Coq (single-bound, told-then-closed and leaves-only-by-departure invariants of the req/rep router LTS) + trace-acceptor correspondence and rejected-replier trace predicates',
    'text': ("PROVED for every accepted trace: requests are only handed to a replier that was bound; a refused replier is never bound and never receives a request; the current "
             "replier is a bound one; the rejection code is REPLIER_ALREADY_BOUND (5). CHECKED on every implementation trace (predicates + exact acceptance): the sink of a refused "
             "replier sees poll_ready*, the error frame, poll_close* and nothing else; by the end of a wake-driven drained history every queued replier was either bound or told "
             "and closed; the replier receiving requests never flips back; re-binding after the bound replier's stream ends is part of the accepted model behaviour. PROVED as well: in every "
             "reachable state every refused replier is still being dealt with (rejection in the one-slot buffer, or the router at one of the three calls on its sink), or poll_close has "
             "completed on its sink - which only happens on a sink that had accepted the replier-already-bound frame - or its sink failed before the frame could be written. PROVED: on every "
             "accepted trace every replier that was ever bound is still the bound one or departed in that trace (its stream ended, or its sink failed on poll_ready / poll_flush): neither another "
             "replier's registration, nor a rejected replier's failing sink, nor a request its own sink refuses unbinds it; the same is a predicate on implementation traces (obs_c10_rebind_justified). "
             "PROVED: the sockets the router took from its registration channel are, as a multiset, those still waiting in its queue plus the bound repliers, the refused repliers and the keyed requestors "
             "(no registration lost, none given two roles), and the decision rule where a replier's registration is taken from the queue: bound exactly when nobody is bound (so the next replier after a "
             "departure is bound), otherwise refused with the bound replier kept."),
    'note': ROUTER_NOTE,
    'design': 'DESIGN.md section 3 C10',
}
CHECKS['C16'] = {
    'technique': 'machine-checked proof in Coq (flush invariant of the pub/sub router LTS; closed-channel invariant and poll-after-close-completes within a bound for both router LTSs) + close-at-random-point wake-driven runs of both routers and SIGINT shutdown of the real server',
    'text': ("PROVED (pub/sub): whenever the router's future completes, the buffered message was handed over and every live subscriber holds, flushed, everything pulled since its "
             "registration. CHECKED on implementation traces of both routers: the registration channel is closed at a random point of every third history and in the final phase of "
             "40% of them; under the wake-driven executor with ready sinks the future must complete (this is what detects a channel whose waker was not re-armed), and the "
             "completion predicates must hold (for req/rep also: every reply handed to a requestor's sink is flushed when the future completes). PROVED for both routers: once the "
             "registration channel is closed, a poll returns Pending only in a step in which a sink answered Pending - with peers that accept data every poll after close returns Ready. "
             "PROVED for both routers: from every reachable state with the channel closed, a poll in which no sink answers Pending ends by completing the future, after at most "
             "(data + queued + 1) * cap peer calls (the C09 potential argument). NOT proved: that peers answer (the model accepts traces, it does not generate them); Server::shutdown's "
             "close-then-join is exercised by the shut scenarios (SIGINT to an in-process server with registrations in flight)."),
    'note': ROUTER_NOTE,
    'design': 'DESIGN.md section 3 C16',
}

CHECKS['C03'] = {
    'technique': 'machine-checked proof in Coq (publisher/subscriber model, all operation sequences and configurations, codec/compression by contract) + end-to-end runs over loopback QUIC',
    'text': ("PROVED: for any payload codec and compression pair satisfying their round-trip contract, batching off or on with any size, ANY sequence of send/feed/flush operations and "
             "ANY expiry pattern of the batching interval, the subscriber run on what the publisher hands to the transport after finish() yields exactly the accepted items, in order, "
             "each once; finish() leaves nothing in the batch or in the framed writer's buffer. The batch codec inside is the C05 one (with explicit panics). TIED to the code by running "
             "the real Publisher -> real server -> real Subscriber over loopback QUIC (certificates from the repository's generator) across codecs x 8 compression settings x levels x "
             "batch sizes/intervals x send/feed x counts around multiples of the batch size, plus a raw subscriber recording frames that the extracted model's subscriber must decode "
             "to the same items (uncompressed configurations)."),
    'note': "Codec/compression are contracts (checked under C14). FramedWrite buffering, SinkExt::send/feed, QUIC ordering, server pass-through (C01) modelled/assumed. Interval expiry is adversarial in the theorem.",
    'design': 'DESIGN.md section 3 C03',
}

CHECKS['C14'] = {
    'technique': 'machine-checked proof in Coq (codec round-trips, wrapper pairing from translated facts, wire composition by contract) + exhaustive algorithm x level round-trip runs',
    'text': ("PROVED: the string codec round-trips valid UTF-8 and never decodes invalid UTF-8 to a value; the bytes codec is the identity; bincode round-trips every item type "
             "built from the layout combinators; the DEFLATE wrappers construct the same format on both sides for both variants and both public constructors, and the other "
             "wrappers use one format each (facts re-read from standard/src/compression on every run, incl. write_all + finish/flush before the bytes are taken); presets lie in "
             "the libraries' level ranges; encode -> batch -> compress -> decompress -> unbatch -> decode is the identity under the library contract. NOT PROVED (third-party code): "
             "decompress(compress b) = b for gzip/zlib/zstd/lz4/brotli themselves - checked on every run for every algorithm, brotli mode and EVERY supported level "
             "(presets, default, explicit 0..9 / 1..22 / 0..11) on empty, tiny, incompressible, repetitive, text-like and frame-limit-sized payloads."),
    'note': "Compression algorithms and bincode internals are third-party: exercised, not verified. serde derive order modelled.",
    'design': 'DESIGN.md section 3 C14',
}

CHECKS['C04'] = {
    'technique': 'machine-checked proof in Coq (requestor bookkeeping, all event orders) + runs of real Requestors against a scripted raw replier over loopback QUIC',
    'text': ("PROVED for every order of calls, replies (any id or none, late, doubled, foreign) and timer expiries on one requestor and all its clones, for fewer than 2^32 calls: an "
             "Ok result carries the reply whose req_id is the id given to exactly that call; ids given to different calls differ; every call finishes at most once; a reply never "
             "changes a finished call; after a timeout no reply is ever handed to that call. TIED to the code by runs over loopback QUIC: 1-3 requestor streams (colliding req_ids "
             "across streams) with 1-6 concurrent calls each on clones, against a raw replier answering quickly, out of order, twice, late (after the timeout), never, or with a "
             "foreign req_id; then a second round of calls after every late reply has arrived. Each Ok must be the reply made for that very request; late/missing/foreign must end in "
             "RequestTimeout within [T-20 ms, T+400 ms]."),
    'note': "tokio's timer and the server's routing (C02) are assumed by the theorem and exercised by the run. Payload codec/compression of requests is covered by C14/C03 machinery.",
    'design': 'DESIGN.md section 3 C04',
}

CHECKS['C12'] = {
    'technique': 'machine-checked proof in Coq (retry-budget state machines of both wrappers, translated error classification) + connection-cut scenarios over loopback QUIC via the verif-hooks feature',
    'text': ("Partial (timing and the transport are runtime). PROVED about the state machines of keep_alive/pubsub.rs and keep_alive/reqrep.rs, with the error classification re-read "
             "from helpers.rs on every run: each outage starts with the full budget whatever the history (both wrappers); budget-many consecutive recoverable failures end in "
             "Exhausted (too-many-retries), fewer followed by a success end Connected; Exhausted is final; an unrecoverable error is returned at once; a replier that is acknowledged "
             "and then refused because the topic is squatted consumes the budget of the same outage and ends Exhausted; replier-already-bound and connection loss are retryable, "
             "nothing else is. OBSERVED over loopback QUIC with the hook closing the client's connection: publisher, subscriber, requestor and replier each survive k > max_attempts "
             "successive outages (every outage recovered) and work afterwards - messages published / requests issued after recovery are delivered / answered; a replier whose "
             "topic is taken over reports too-many-retries instead of hanging."),
    'note': "Hook: cargo feature verif-hooks of the selium crate (one added method, off by default). Sleeps, QUIC handshakes and timeouts are not modelled.",
    'design': 'DESIGN.md section 3 C12',
}

CHECKS['C11'] = {
    'technique': 'machine-checked proof in Coq over the registration path translated statement-by-statement from server/src/server.rs (symbolic execution for every table, name and role; induction over registration sequences) and over the router LTS + raw-peer scenarios on the real server over loopback QUIC',
    'text': ("The body of handle_stream is translated on every run into a small instruction language (lock, unlock, replies with their codes, topic creation, hand-off, the three conditions); "
             "Frame::get_topic and the client's handle_reply are translated too. PROVED for every table, every name, every first frame of the eight kinds: a frame without a topic is closed without "
             "any reply (never Ok); a register frame is either answered Ok with the socket in the queue of a router of exactly the messaging pattern asked for, or refused with INVALID_TOPIC_NAME / "
             "TOPIC_KIND_MISMATCH and nothing changed; never Ok-then-abandoned, never a panic, the lock always released; for every sequence of registrations the kind of an existing topic never "
             "changes and a registration that fits it is still served afterwards; the client library reports every first reply other than Ok as an error carrying the server's code. "
             "PROVED on the router LTS: no sequence of frames of any kind from requestors/repliers/publishers in any schedule makes a router panic. PROVED on the req/rep router LTS: every socket taken from the registration channel is still queued or was given a role (bound, refused, keyed) - none is dropped, nobody is given two roles, and they are exactly the sockets sent on the channel in the trace; the pub/sub router drops no subscriber registration either (queued or adopted into the fan-out); on implementation histories obs_c11_replier_answered demands that every replier taken was served, told with the error frame, or failed. TIED to the code: raw peers open streams with all eight "
             "first-frame kinds on valid/invalid/reserved names in both messaging patterns and send unexpected and oversized-once-tagged frames mid-stream; the first reply of every stream is compared "
             "with the model's, and afterwards real clients must get service on every acknowledged topic and on a fresh one; the router simulations feed arbitrary frame kinds."),
    'note': "Partial where the runtime decides: QUIC stream closure, tokio::spawn and the wire encoding of replies are observed, not modelled; the __cloud feature branch is off and skipped. Reading adopted: a first frame without a topic may be closed with no reply.",
    'design': 'DESIGN.md section 3 C11',
}

CHECKS['C17'] = {
    'technique': 'machine-checked proof in Coq (small-step semantics of any number of concurrent registrations over the global lock and bounded per-topic queues, for the program translated from handle_stream: invariant + constructive progress) + stall scenario on the real server over loopback QUIC',
    'text': ("Partial (that a non-reading subscriber stalls its router, and mutex fairness, are runtime facts). The registration path is translated from server/src/server.rs on every run, including where the "
             "lock is taken and dropped, where replies are written and whether the socket is handed over through the task's own clone of the topic sender; SOCK_CHANNEL_SIZE is read from both routers. "
             "PROVED for every reachable state of the system of arbitrarily many registration tasks, with routers that adopt registrations or not at will: the translated program never executes an "
             "instruction that can wait for a peer or a router while it holds the table lock, never takes the lock twice and touches the table only under it; hence the holder of the lock can always "
             "take its next step and releases the lock after finitely many of its own steps; and every registration whose own peer reads runs to completion helped only by its own topic's router and by "
             "whoever holds the lock at that moment - no step of another topic's router or of another registration outside its locked section is needed, however many registrations are queued or "
             "parked anywhere. The model reproduces the repaired defect (hand-off under the lock: the 101st registration blocks holding the lock). TIED to the code: a subscriber that stops reading, "
             "1 MB messages until the router blocks, N in {0,95,100,101,102,110,130,250} further registrations on that topic before/after/around the stall, then a pub/sub and a request/reply round trip "
             "on other topics within a deadline; the model's prediction for the same N is compared."),
    'note': "Modelled, not verified: futures-channel bounded mpsc parking semantics, tokio Mutex fairness, QUIC flow control; topic_handles is taken to be locked only briefly.",
    'design': 'DESIGN.md section 3 C17',
}

CHECKS['C15'] = {
    'technique': 'machine-checked proof in Coq (symbolic PKI; verifier configuration and generator parameters translated from the source) + the full identity matrix handshaken over loopback QUIC with fresh keys',
    'text': ("Partial by nature: the theorems are about the configuration-level decision, the cryptography (rustls/webpki/ring) is trusted. Translated on every run: the client-certificate verifier "
             "the server installs and the source of its roots (--ca), the client's verifier (root store of with_certificate_authority, no custom/dangerous verifier anywhere), the server name it "
             "connects to, and the generator's parameters (CA flag and keyCertSign, serverAuth/clientAuth usages, SAN, entity certificates signed by the CA). PROVED in a symbolic PKI where "
             "signatures cannot be forged, for any presented chain and any keys: the configured server admits a client only if it presents a non-CA certificate usable for client "
             "authentication with a chain certified by the configured CA; the configured client talks to a server only if its certificate is likewise certified by the client's CA, usable for "
             "server authentication and names the host connected to; no certificate, a self-signed one or one of another CA are refused; the generator's set passes in both directions for "
             "localhost. TIED to the code: 2 server identities x 5 client identities, through the client library and through a raw peer, with freshly generated keys each run; only "
             "trusted/trusted may get a registration acknowledged, and the model's matrix must agree."),
    'note': "Modelled, not verified: X.509 parsing, signature checks, validity periods and path building of webpki/ring.",
    'design': 'DESIGN.md section 3 C15',
}
HOOK_COMMITS = ['f262eac']

ALL = ['C%02d' % i for i in range(1, 18)]

PENDING_REASON = "check under construction in this session (model and harness not yet committed); it will be claimed once its check is committed"


def manifest():
    checks = []
    for pid in ALL:
        if pid not in CHECKS:
            continue
        c = CHECKS[pid]
        checks.append({
            'property_id': pid,
            'quick_cmd': 'bin/check %s --tier quick' % pid,
            'thorough_cmd': 'bin/check %s --tier thorough' % pid,
            'evidence_file': 'evidence/%s.json' % pid,
            'replay_cmd_template': 'bin/check %s --replay {path}' % pid,
            'engine': 'coq',
            'technique': c['technique'],
            'level_claimed': {'category': 'proof', 'text': c['text'], 'design_ref': c['design']},
            'level_note': COMMON_NOTE + c['note'],
        })
    na = []
    reasons = NOT_APPLICABLE
    for pid in ALL:
        if pid not in CHECKS:
            na.append({'property_id': pid, 'reason': reasons.get(pid, PENDING_REASON)})
    claimed = [c['property_id'] for c in checks]
    return {
        'version': 1,
        'setup_cmd': 'bin/setup',
        'hooks': {
            'guard': 'verif-hooks',
            'enable': "cargo feature `verif-hooks` of the `selium` client crate, switched on by the harness crate's dependency declaration; no hook code is compiled otherwise",
            'baseline_off_cmd': 'cd /repo && (cargo nextest run --workspace --no-fail-fast --test-threads 8 --offline || cargo test --workspace --no-fail-fast --offline)',
            'source_commits': HOOK_COMMITS,
            'add_only': True,
        },
        'engines': [
            {'name': 'coq', 'path': 'coq/', 'serves_properties': claimed, 'kind_free_text': 'Coq 8.16 development: hand models, definitions regenerated from /repo by the translator (coq/gen), theorems (Props_Cxx.v)'},
            {'name': 'translator', 'path': 'translator/', 'serves_properties': claimed, 'kind_free_text': 'python3 translator: Rust subset -> Gallina (constants, regexes, layouts, straight-line functions)'},
            {'name': 'harness', 'path': 'harness/', 'serves_properties': claimed, 'kind_free_text': 'Rust crate with path dependencies on /repo: drives the real code with seeded inputs / scripted mock peers / loopback QUIC, emits traces'},
            {'name': 'driver', 'path': 'ocaml/', 'serves_properties': claimed, 'kind_free_text': 'extracted Coq models and property predicates + OCaml trace judge (correspondence + predicate on implementation traces)'},
        ],
        'checks': checks,
        'not_applicable': na,
        'notes': 'See DESIGN.md. known_findings.json lists fixed and known defects.',
    }


NOT_APPLICABLE = {}

if __name__ == '__main__':
    json.dump(manifest(), open(os.path.join(HERE, 'MANIFEST.json'), 'w'), indent=1)
    print('MANIFEST.json written: %d checks' % len(manifest()['checks']))
