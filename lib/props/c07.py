"""C07 — topic names: regexes and reserved word translated from the source, matcher proved sound
and complete, grammar theorem; differential of TopicName::{try_from,create,is_valid,Display}."""
from verif import *

THEOREMS = ['c07_accept_iff_grammar', 'c07_rejects_everything_else', 'c07_never_panics', 'c07_print_parse',
            'c07_parse_print', 'c07_server_rule_same', 'c07_is_valid_is_grammar', 'c07_create_spec', 'c07_print_injective']


def run(tier, seed, replay=None):
    check = Check('C07', tier, seed)
    prove(check, 'theories/Props_C07.v', THEOREMS)
    differential(check, 'C07', 'topic', 'c07', tier, seed, replay, 1500, 100000, extract_between_bars)
    check.coverage['rule'] = ('strings assembled around the grammar: components of length {0,1,2,3,4,63,64,65,66,130,random} over [A-Za-z0-9_-] with an '
                              'optional odd character (separators, controls, 2/3/4-byte UTF-8, U+203F, ZWJ, combining marks, non-ASCII digits) at a random '
                              'position, reserved-word variants, 16 shapes of slash placement, plus (namespace, topic) pairs for create(); one seeded PRNG; '
                              'non-trivial = distinct input line')
    check.coverage['trusted_base'] = TRUSTED_BASE_COMMON + [
        'modelled, not verified: the regex crate on the translated fragment (anchored sequence of literals and bounded class repetitions; matcher proved sound and complete in P_Regex.v), str::starts_with, str::get(1..) - validated by the differential',
        'strings are modelled as lists of Unicode scalar values; UTF-8 enters only through str::get(1..) (utf8_len)',
        'server-side enforcement and cross-topic isolation over QUIC are covered by the net scenario of this check when present; the theorem part covers is_valid = the same rule and injectivity of the key',
    ]
    check.assumptions = ['"letters, digits" read as ASCII [A-Za-z0-9], as the source comment documents; lengths counted in characters']
    return check.finish()
