"""C07 — topic names: regexes and reserved word translated from the source, matcher proved sound
and complete, grammar theorem; differential of TopicName::{try_from,create,is_valid,Display}."""
from verif import *

THEOREMS = ['c07_accept_iff_grammar', 'c07_rejects_everything_else', 'c07_never_panics', 'c07_print_parse',
            'c07_parse_print', 'c07_server_rule_same', 'c07_is_valid_is_grammar', 'c07_create_spec', 'c07_print_injective']


SERVER_THEOREMS = ['c07_server_refuses_invalid_names', 'c07_names_do_not_interfere']


def run(tier, seed, replay=None):
    check = Check('C07', tier, seed)
    prove(check, 'theories/Props_C07.v', THEOREMS)
    prove(check, 'theories/Props_C07_server.v', SERVER_THEOREMS)
    head = open(replay).read(4000) if replay else ''
    if not replay or 'case srv ' not in head:
        differential(check, 'C07', 'topic', 'c07', tier, seed, replay, 1500, 100000, extract_between_bars)
        if tier == 'thorough' and not replay:
            # every Unicode scalar value once, at one of six positions of an otherwise valid name (shards interleave)
            differential(check, 'C07', 'topicsweep', 'c07', tier, seed, None, 16, 16, extract_between_bars, shards=16)
    if not replay or 'case srv ' in head:
        # server side: names arriving on the wire, and isolation of confusable names (the srv engine of C11, judged for C07 only)
        differential(check, 'C07', 'srv', 'srv', tier, seed, replay, 2, 20, extract_between_bars, sample_lines=10, timeout=1800, driver_extra=['c07'], shards=8)
    check.coverage['rule'] = ('strings assembled around the grammar: components of length {0,1,2,3,4,63,64,65,66,130,random} over [A-Za-z0-9_-] with an '
                              'optional odd character (half from a list: separators, controls, 2/3/4-byte UTF-8 boundaries, U+203F, ZWJ, combining marks, non-ASCII digits, characters that case folding or compatibility mappings relate to ASCII letters/digits/-/_ such as U+017F U+212A U+0130 fullwidth forms; half any Unicode scalar value) at a random '
                              'position, reserved-word variants, 16 shapes of slash placement, plus (namespace, topic) pairs for create(); one seeded PRNG; '
                              'thorough tier adds an exhaustive sweep of all Unicode scalar values at six positions; non-trivial = distinct input line ; srv: raw peers register on valid / invalid / reserved names over loopback QUIC (first reply compared with the model and the grammar), then nine confusable names (swapped parts, shifted split point, shared namespace, shared topic, the same text split at different underscore / hyphen characters) carry concurrent traffic and every subscriber must see exactly its own')
    check.coverage['trusted_base'] = TRUSTED_BASE_COMMON + [
        'modelled, not verified: the regex crate on the translated fragment (anchored sequence of literals and bounded class repetitions; matcher proved sound and complete in P_Regex.v), str::starts_with, str::get(1..) - validated by the differential',
        'strings are modelled as lists of Unicode scalar values; UTF-8 enters only through str::get(1..) (utf8_len)',
        'server side: the registration path is the program translated from server/src/server.rs (see C11); HashMap<TopicName, _> keyed by the derived Hash/Eq of (namespace, topic) is represented by name identities and exercised by the isolation scenario',
    ]
    check.assumptions = ['"letters, digits" read as ASCII [A-Za-z0-9], as the source comment documents; lengths counted in characters']
    return check.finish()
