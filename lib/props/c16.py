"""C16 — shutdown: every router terminates after flushing."""
from verif import *
from props.routers import *

THEOREMS = ['c16_ps_flushed_at_completion', 'c16_ps_closed_pending_only_from_sinks', 'c16_rr_closed_pending_only_from_sinks',
            'c16_ps_poll_after_close_completes', 'c16_rr_poll_after_close_completes']


def run(tier, seed, replay=None):
    check = Check('C16', tier, seed)
    if THEOREMS:
        prove(check, 'theories/Props_C16_ps.v', THEOREMS)
    engines = ['ps', 'rr', 'shut']
    if replay:
        head = open(replay).read(4000)
        engines = [e for e in engines if ('case ' + e + ' ') in head] or engines[:1]
    for e in engines:
        if e == 'shut':
            from props.c05 import replay_text
            differential(check, 'C16', 'shut', 'shut', tier, seed, replay, 1, 3, replay_text, sample_lines=6, timeout=900, shards=6 if tier == 'quick' else 12)
        else:
            router_stage(check, 'C16', e, tier, seed, replay, 80, 4000)
    SHUT_RULE = ('shut: each case: in-process server on loopback QUIC; a pub/sub and a request/reply topic are exercised by real clients; a subscriber that reads stays connected, '
                 'optionally an idle publisher; 0, 1 or 3 registrations are in flight (a peer granting the server no stream credit registers and never reads the acknowledgement); then '
                 'SIGINT is raised and Server::listen must return (Server::shutdown: close every topic channel, join every router) within 8 s; non-trivial = distinct (in-flight, idle publisher)')
    check.coverage['rule'] = ' ; '.join(r for e, r in (('ps', PS_RULE), ('rr', RR_RULE), ('shut', SHUT_RULE)) if e in engines)
    check.coverage['trusted_base'] = TRUSTED_BASE_COMMON + ROUTER_TRUST
    return check.finish()
