"""C16 — shutdown: every router terminates after flushing."""
from verif import *
from props.routers import *

THEOREMS = ['c16_ps_flushed_at_completion', 'c16_ps_closed_pending_only_from_sinks', 'c16_rr_closed_pending_only_from_sinks']


def run(tier, seed, replay=None):
    check = Check('C16', tier, seed)
    if THEOREMS:
        prove(check, 'theories/Props_C16_ps.v', THEOREMS)
    engines = ['ps', 'rr']
    if replay:
        head = open(replay).read(4000)
        engines = [e for e in engines if ('case ' + e + ' ') in head] or engines[:1]
    for e in engines:
        router_stage(check, 'C16', e, tier, seed, replay, 80, 4000)
    check.coverage['rule'] = ' ; '.join(r for e, r in (('ps', PS_RULE), ('rr', RR_RULE)) if e in engines)
    check.coverage['trusted_base'] = TRUSTED_BASE_COMMON + ROUTER_TRUST
    return check.finish()
