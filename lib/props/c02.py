"""C02 — request/reply routing."""
from verif import *
from props.routers import *

THEOREMS = ['c02_no_reply_lost', 'c02_origin_unforgeable', 'c02_requests_in_order_at_most_once', 'c02_replies_to_the_right_requestor_in_order', 'c02_requests_accounted', 'c02_never_superseded_while_bound', 'c02_discarded_replies_deserved_no_live_requestor']


def run(tier, seed, replay=None):
    check = Check('C02', tier, seed)
    if THEOREMS:
        prove(check, 'theories/Props_C02.v', THEOREMS)
    engines = ['rr']
    if replay:
        head = open(replay).read(4000)
        engines = [e for e in engines if ('case ' + e + ' ') in head] or engines[:1]
    for e in engines:
        router_stage(check, 'C02', e, tier, seed, replay, 80, 4000)
    check.coverage['rule'] = ' ; '.join(r for e, r in (('ps', PS_RULE), ('rr', RR_RULE)) if e in engines)
    check.coverage['trusted_base'] = TRUSTED_BASE_COMMON + ROUTER_TRUST
    return check.finish()
