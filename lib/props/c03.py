"""C03 — end-to-end pub/sub fidelity for every client configuration."""
from verif import *
from props.c05 import replay_text

THEOREMS = ['c03_fidelity', 'c03_finish_leaves_nothing']


def run(tier, seed, replay=None):
    check = Check('C03', tier, seed)
    prove(check, 'theories/Props_C03.v', THEOREMS)
    differential(check, 'C03', 'c03', 'c03', tier, seed, replay, 7, 120, replay_text, sample_lines=6, timeout=1200)
    check.coverage['rule'] = ('configurations drawn from {String, Bytes, Bincode<struct>} x {none, gzip, zlib, zstd, lz4, brotli generic/text/font} x level {preset fastest/balanced/highest, '
                              'default, explicit in the library range} x batching {off, size in {0,1,2,3,7,100} x interval in {0, 5 ms, 1 h}} x {send, feed} x counts around multiples of the '
                              'batch size x payload classes (empty .. 5 kB, every 12th case 130-190 kB items, every 10th case a batch that mixes one 70-200 kB item among small ones, every 14th case byte items whose frame payload lies in the last 12 bytes below the 1 MiB frame limit - unbatched: 9 + n, as a batch of one: 16 + n); each case: real Subscriber and a raw frame-recording subscriber register, then a real Publisher sends and '
                              'finish()es over loopback QUIC through the real server (batched cases with an even number of items duplicate() the publisher half-way and finish the idle duplicate, which must deliver nothing); non-trivial = distinct configuration line')
    check.coverage['trusted_base'] = TRUSTED_BASE_COMMON + [
        'contracts, not verified: the payload codec and the compression pair are Section variables with decode(encode x) = x and decompress(compress b) = b (C14 checks them)',
        'modelled, not verified: tokio_util FramedWrite buffering (frames sit in the writer until flushed), SinkExt::send/feed; QUIC in-order reliable delivery and the server pass-through (C01) are assumed by the theorem and exercised by the run',
        'wall clock: whether the batching interval has expired at a poll_ready is an adversarial boolean in the theorem; in the run batch boundaries are read from the recorded frames',
    ]
    check.assumptions = ['the subscriber registered before the first send (the run waits 60 ms after both registrations were acknowledged)']
    return check.finish()
