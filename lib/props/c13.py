"""C13 — back-off schedules: translated iterator body, proofs in Coq, differential run of the
real iterator against the extracted model and the law."""
import os
import re
from verif import *

THEOREMS = ['c13_schedule_meets_law', 'c13_never_panics', 'c13_count', 'c13_numbering_and_delay',
            'c13_prefix_is_schedule_prefix', 'c13_clamped', 'c13_law_exact', 'c13_saturates']


def judge(check, trace_files, label):
    """runs the driver over trace files in parallel; returns aggregated summary and failing lines"""
    outs = [t + '.verdict' for t in trace_files]
    rcs = run_parallel([([os.path.join(OCAML, 'driver'), 'c13', t], o) for t, o in zip(trace_files, outs)])
    agg = {'cases': 0, 'corr_fail': 0, 'prop_fail': 0, 'nontrivial': 0, 'skipped': 0,
           'saturated_items': 0, 'clamped_items': 0, 'exhausted_cases': 0}
    kinds = {}
    failing = []
    for rc, o, t in zip(rcs, outs, trace_files):
        text = open(o).read()
        if rc != 0 or 'summary ' not in text:
            check.obligation_broken('driver failed on %s' % t, text[-2000:])
            continue
        for line in text.splitlines():
            if line.startswith('summary '):
                for k, v in re.findall(r'(\w+)=([0-9]+)\b', line):
                    if k in agg:
                        agg[k] += int(v)
                m = re.search(r'kinds=(\S+)', line)
                if m:
                    for kv in m.group(1).split(','):
                        if ':' in kv:
                            k, v = kv.split(':')
                            kinds[k] = kinds.get(k, 0) + int(v)
            elif 'corr=DIFF' in line or 'prop=FAIL' in line:
                failing.append(line)
    agg['kinds'] = kinds
    return agg, failing


def run(tier, seed, replay=None):
    check = Check('C13', tier, seed)
    proved = prove(check, 'theories/Props_C13.v', THEOREMS)
    ok, out = build_driver()
    if not ok:
        check.obligation_broken('extraction / driver build', out)
    okh, outh = build_harness()
    if not okh:
        check.obligation_broken('harness does not build against the current /repo', outh)
    traces = []
    samples = []
    if ok and okh:
        os.makedirs(WORK, exist_ok=True)
        hb = harness_bin()
        cmds = []
        if replay:
            t = os.path.join(WORK, 'c13_replay.trace')
            cmds.append(([hb, 'backoff', 'replay', replay], t))
        else:
            corpus = os.path.join(VERIF, 'corpus', 'C13')
            for f in sorted(os.listdir(corpus)):
                t = os.path.join(WORK, 'c13_corpus_%s.trace' % f)
                cmds.append(([hb, 'backoff', 'replay', os.path.join(corpus, f)], t))
            shards = NPROC
            per = 100 if tier == 'quick' else 4000
            for i in range(shards):
                t = os.path.join(WORK, 'c13_gen_%d.trace' % i)
                cmds.append(([hb, 'backoff', 'gen', str(seed * 1000 + i), str(per)], t))
        rcs = run_parallel(cmds)
        for (argv, t), rc in zip(cmds, rcs):
            if rc != 0:
                check.obligation_broken('harness run failed: %s' % ' '.join(argv), 'exit %s' % rc)
            else:
                traces.append(t)
        agg, failing = judge(check, traces, 'c13')
        # samples: first few cases of the first generated trace
        for t in traces[-1:]:
            lines = open(t).read().splitlines()
            for i in range(0, min(len(lines), 8), 2):
                samples.append(' / '.join(l[:200] for l in lines[i:i + 2]))
        prop_fail = [l for l in failing if 'prop=FAIL' in l]
        corr_only = [l for l in failing if 'prop=FAIL' not in l]
        if prop_fail:
            # replay file: the failing case lines (harness `backoff replay` format)
            cases = []
            for l in prop_fail[:20]:
                m = re.search(r'\| (case [^|]+) \|', l)
                if m:
                    cases.append(m.group(1).strip())
            path = write_replay('C13', 'failing_cases.txt', '\n'.join(cases) + '\n\n# verdicts\n' + '\n'.join(prop_fail[:20]) + '\n')
            check.violation('%d case(s) where the real iterator deviates from the law / panics' % len(prop_fail), path)
        if corr_only:
            check.obligation_broken('correspondence: model and implementation differ on %d case(s) although the law is met' % len(corr_only),
                                    '\n'.join(corr_only[:10]))
        check.coverage.update({
            'evaluations': agg['cases'],
            'distinct_nontrivial': agg['nontrivial'],
            'traces_validated_against_impl': agg['cases'] - agg['corr_fail'] - agg['skipped'],
            'rule': 'configurations (strategy, factor, step, max_attempts, max_delay, calls) drawn from boundary values '
                    '{0,1,2^31,2^32+-1,2^63,u64::MAX,Duration::MAX,...} and random ones, all from one seeded PRNG; '
                    'each runs the real BackoffStrategy iterator for calls+1 calls; non-trivial = distinct configuration that yielded >= 2 attempts',
            'samples': samples,
            'input_distribution': {'strategies': agg['kinds'], 'saturated_items': agg['saturated_items'],
                                   'clamped_items': agg['clamped_items'], 'exhausted_cases': agg['exhausted_cases'],
                                   'outside_hypotheses_skipped': agg['skipped']},
            'disagreements': agg['corr_fail'],
            'property_failures': agg['prop_fail'],
        })
    check.coverage['trusted_base'] = TRUSTED_BASE_COMMON + [
        'modelled, not verified: core::time::Duration and the u32/u64/u128 primitives (saturating_mul, checked_pow, checked_mul, try_from, Duration::new, min) as defined in theories/RustArith.v; validated on every run by the differential against the real iterator',
        'hypothesis of the theorems: max_attempts < u32::MAX (with max_attempts = u32::MAX the counter increment after the last attempt overflows; unreachable in practice: 4 billion attempts)',
    ]
    check.assumptions = ['Duration modelled as total nanoseconds < 2^64 * 10^9', 'profile: harness built with overflow checks on (dev); theorems hold for both settings of `debug`']
    return check.finish()
