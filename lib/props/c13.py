"""C13 — back-off schedules: translated iterator body, proofs in Coq, differential run of the
real iterator against the extracted model and the law."""
from verif import *

THEOREMS = ['c13_schedule_meets_law', 'c13_never_panics', 'c13_count', 'c13_numbering_and_delay',
            'c13_prefix_is_schedule_prefix', 'c13_clamped', 'c13_law_exact', 'c13_saturates']


def run(tier, seed, replay=None):
    check = Check('C13', tier, seed)
    prove(check, 'theories/Props_C13.v', THEOREMS)
    differential(check, 'C13', 'backoff', 'c13', tier, seed, replay, 100, 4000, extract_between_bars)
    check.coverage['rule'] = ('configurations (strategy, factor, step, max_attempts, max_delay, calls) drawn from boundary values '
                              '{0,1,2^31,2^32+-1,2^63,u64::MAX,Duration::MAX,...}, steps at the overflow boundary of attempt k (Duration::MAX / k give or take a few nanoseconds or a second, k = 1..64) and random ones, all from one seeded PRNG; the three builder setters are applied in one of their six orders; each runs the real '
                              'BackoffStrategy iterator for calls+1 calls; non-trivial = distinct configuration that yielded >= 2 attempts')
    check.coverage['trusted_base'] = TRUSTED_BASE_COMMON + [
        'modelled, not verified: core::time::Duration and the u32/u64/u128 primitives (saturating_mul, checked_pow, checked_mul, try_from, Duration::new, min) as defined in theories/RustArith.v; validated on every run by the differential against the real iterator',
        'hypothesis of the theorems: max_attempts < u32::MAX (with max_attempts = u32::MAX the counter increment after the last attempt overflows; unreachable in practice: 4 billion attempts)',
    ]
    check.assumptions = ['Duration modelled as total nanoseconds < 2^64 * 10^9',
                         'harness built with overflow checks on (dev profile); the theorems hold for both settings of `debug`']
    return check.finish()
