"""C01 — pub/sub fan-out."""
from verif import *
from props.routers import *

THEOREMS = ['c01_exactly_once_in_order', 'c01_history_is_trace', 'c01_quiescent_flushed']


def run(tier, seed, replay=None):
    check = Check('C01', tier, seed)
    if THEOREMS:
        prove(check, 'theories/Props_C01.v', THEOREMS)
    router_stage(check, 'C01', 'ps', tier, seed, replay, 150, 6000)
    check.coverage['rule'] = PS_RULE
    check.coverage['trusted_base'] = TRUSTED_BASE_COMMON + ROUTER_TRUST
    return check.finish()
