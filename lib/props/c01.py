"""C01 — pub/sub fan-out."""
from verif import *
from props.routers import *

THEOREMS = ['c01_exactly_once_in_order', 'c01_history_is_trace', 'c01_quiescent_flushed']


def run(tier, seed, replay=None):
    check = Check('C01', tier, seed)
    if THEOREMS:
        prove(check, 'theories/Props_C01.v', THEOREMS)
    head = open(replay).read(4000) if replay else ''
    if not replay or 'case srv ' not in head:
        router_stage(check, 'C01', 'ps', tier, seed, replay, 150, 6000)
    if not replay or 'case srv ' in head:
        # registration order on the real server: first registrations racing for a fresh topic, then a publisher
        # (the srv engine of C11, judged here for what concerns pub/sub delivery only)
        differential(check, 'C01', 'srv', 'srv', tier, seed + 3, replay, 1, 6, extract_between_bars, sample_lines=6, timeout=1800, driver_extra=['c01'], shards=8)
    check.coverage['rule'] = PS_RULE + ' ; srv (real server over loopback QUIC): 25 rounds per case in which eight first registrations race for a fresh topic; every subscriber acknowledged in the race must receive the 3 messages of a publisher that registers afterwards; confusable topic names must not share traffic'
    check.coverage['trusted_base'] = TRUSTED_BASE_COMMON + ROUTER_TRUST
    return check.finish()
