"""C10 — at most one replier, explicit rejection, re-binding."""
from verif import *
from props.routers import *

THEOREMS = ['c10_single_bound', 'c10_error_code_is_replier_already_bound', 'c10_refused_replier_told_then_closed', 'c10_bound_replier_leaves_only_by_departure', 'c10_rejection_never_left_waiting', 'c10_registrations_placed_exactly_once', 'c10_roles_pairwise_distinct', 'c10_replier_decision']


def run(tier, seed, replay=None):
    check = Check('C10', tier, seed)
    if THEOREMS:
        prove(check, 'theories/Props_C10.v', THEOREMS)
    engines = ['rr']
    if replay:
        head = open(replay).read(4000)
        engines = [e for e in engines if ('case ' + e + ' ') in head] or engines[:1]
    for e in engines:
        router_stage(check, 'C10', e, tier, seed, replay, 80, 4000)
    check.coverage['rule'] = ' ; '.join(r for e, r in (('ps', PS_RULE), ('rr', RR_RULE)) if e in engines)
    check.coverage['trusted_base'] = TRUSTED_BASE_COMMON + ROUTER_TRUST
    return check.finish()
