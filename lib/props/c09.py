"""C09 — routers never spin and never sleep on undone work."""
from verif import *
from props.routers import *

THEOREMS = ['c09_pubsub_no_sleep_on_undone_work', 'c09_pubsub_never_parks_unarmed', 'c09_reqrep_never_parks_unarmed', 'c09_pubsub_parks_only_when_drained', 'c09_reqrep_parks_only_when_drained',
            'c09_pubsub_work_bounded', 'c09_reqrep_work_bounded', 'c09_pubsub_never_spins', 'c09_reqrep_never_spins', 'c09_pubsub_parks_armed_everywhere', 'c09_reqrep_parks_armed_everywhere']


def run(tier, seed, replay=None):
    check = Check('C09', tier, seed)
    if THEOREMS:
        prove(check, 'theories/Props_C09.v', THEOREMS)
    engines = ['ps', 'rr']
    if replay:
        head = open(replay).read(4000)
        engines = [e for e in engines if ('case ' + e + ' ') in head] or engines[:1]
    for e in engines:
        router_stage(check, 'C09', e, tier, seed, replay, 80, 4000)
    check.coverage['rule'] = ' ; '.join(r for e, r in (('ps', PS_RULE), ('rr', RR_RULE)) if e in engines)
    check.coverage['trusted_base'] = TRUSTED_BASE_COMMON + ROUTER_TRUST
    return check.finish()
