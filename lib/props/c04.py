"""C04 — each call gets its own reply, or a timely error."""
from verif import *
from props.c05 import replay_text

THEOREMS = ['c04_own_reply', 'c04_reply_never_changes_a_finished_call', 'c04_late_reply_discarded']


def run(tier, seed, replay=None):
    check = Check('C04', tier, seed)
    prove(check, 'theories/Props_C04.v', THEOREMS)
    differential(check, 'C04', 'c04', 'c04', tier, seed, None, 2, 25, replay_text, sample_lines=8, timeout=1800)
    check.coverage['rule'] = ('each case: in-process server on loopback QUIC, a raw replier following the action embedded in every request {quick x3, late, never, twice, foreign id, hold '
                              '(answered after the next request)}, 1-3 real requestor streams each with 1-6 concurrent calls on clones (staggered 0-30 ms), timeout 400 ms, then a second '
                              'round of quick calls after all late replies arrived; then requestor churn: a fresh stream whose only call is answered late is dropped, a new stream registers and its first call (never answered) must time out while that late reply is in flight, and the surviving streams still get their own replies; then, on a fresh stream, twice: a call answered only after its timeout, immediately followed (nothing else in flight) by a call that is never answered and must time out while the late reply arrives, then a quick call, then a call answered with bytes the decoder rejects (an error for that call) and a quick call on the same handle; then (every second case) contention on one stream: six clones send 1 MB requests to a replier that is slow to take them, one clone makes a 2 MiB request that fails locally after waiting its turn on the shared write half, another clone makes a small request meanwhile and the first one more after its failure - every Ok must carry the reply to its own request, the oversized request must end in an error; then an intruding raw requestor sends requests that already carry a cid header naming every other requestor stream of the topic and the req_id of a call pending (never answered) on a library requestor: that call must time out, not return the reply made for the intruder; then a requestor with two clones survives a cut connection (hook), each clone recovers on its own, and overlapping calls on the two clones - the first answered after the second - must each get their own reply; non-trivial = distinct (action, request) pair')
    check.coverage['trusted_base'] = TRUSTED_BASE_COMMON + [
        'assumed: tokio::time::timeout fires; QUIC delivery; the server routes replies by its own origin tag (C02)',
        'hook: Client::__verif_close_connection (cargo feature verif-hooks of the selium crate) for the outage phase',
        'the replay of a failing case re-runs the seeded scenario (timing-dependent runs are not replayed from a file)',
    ]
    return check.finish()
