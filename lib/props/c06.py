"""C06 — no bytes can crash a decoder: totality theorems for selium's own decoding steps (frame
decoder, streaming loop, unbatching) + malformed-input runs of the real decoders, the payload
codecs and every decompressor in child processes under an address-space limit."""
from verif import *
from props.c05 import replay_text

THEOREMS = ['c06_frame_decode_total', 'c06_stream_decode_total', 'c06_decode_consumes', 'c06_batch_decode_total']


def run(tier, seed, replay=None):
    check = Check('C06', tier, seed)
    prove(check, 'theories/Props_C06.v', THEOREMS)
    is_wire = bool(replay) and 'case ' in open(replay).read()
    if not replay or not is_wire:
        differential(check, 'C06', 'decoders', 'c06', tier, seed, replay, 250, 20000, extract_between_bars, timeout=3000)
    if not replay or is_wire:
        differential(check, 'C06w', 'wire', 'c05', tier, seed + 7, replay, 40, 2000, replay_text, sample_lines=4)
    check.coverage['rule'] = ('(decoders) for each of string/bytes/bincode<struct,Vec<String>,Option<(u32,Vec<u8>)>,((), unit struct)>/gzip/zlib/zstd/lz4/brotli: a valid encoding '
                              'perturbed by one of {none, truncate, bit flips, adversarial 8-byte length (2^24..2^64-1) at offset 0 or random, random bytes, garbage tail, '
                              'invalid UTF-8 fragment}; compressed inputs left untouched carry the length and hash they must decompress to, one payload in ten is larger than a frame block (4.3-4.7 MB, so that a damaged frame fails after output was produced); each case runs in a child process with RLIMIT_AS = 1 GiB, an abort is recorded as such; (wire) raw and batch cases '
                              'of the C05 engine (oversize prefixes, well-framed type-confused frames: a valid length prefix, any type byte 0..10 and random bytes or the payload of another frame, mutated streams, mutated batches); non-trivial = distinct input')
    check.coverage['trusted_base'] = TRUSTED_BASE_COMMON + [
        "NOT modelled (supporting evidence only, by the malformed-input runs in child processes): internals of bincode, flate2/miniz, zstd (C), lz4_flex, brotli; the theorems cover selium's own code: MessageCodec::decode, the FramedRead loop, decode_message_batch",
        "BincodeCodec::decode must use the slice entry point (fixed defect D15); the differential against the model of bincode's slice reader would expose a reader-based entry point as aborts",
    ]
    check.assumptions = ['the subscriber pipeline decompress -> unbatch -> decode is covered over QUIC by the C03 net scenarios, not here']
    return check.finish()
