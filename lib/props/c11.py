"""C11 — every stream open is answered truthfully; no frame sequence breaks the server."""
from verif import *
from props.routers import *
from props.c05 import replay_text

THEOREMS = ['c11_every_open_answered', 'c11_register_frames_are_the_headers', 'c11_open_cases', 'c11_topic_stays_usable', 'c11_client_reports']
ROUTER_THEOREMS = ['c11_reqrep_router_total', 'c11_pubsub_router_total', 'c11_reqrep_registration_never_dropped', 'c11_reqrep_every_queued_socket_placed', 'c11_pubsub_subscriber_registration_never_dropped']

SRV_RULE = ('srv: each case: in-process server on loopback QUIC; one raw peer (trusted certificate) opens 6-14 streams whose first frame is a register frame of one of the four roles (3 in 4) '
            'or a Message / BatchMessage / Error / Ok frame, on a pool of 3 valid names (3 in 4) and 2-3 invalid ones (too short, too long, space, slash, non-ASCII, empty, dot, reserved '
            'namespace), and sends unexpected frames of all kinds mid-stream on acknowledged streams, including requests that fit the frame limit only before the server adds its routing tag; '
            'then on a fresh topic a raw replier and a raw requestor exchange a request, the requestor sends a request of 1 MiB minus 9..28 bytes (too large only once tagged) and a further small one, which the replier must still receive and whose reply must come back; then a peer that grants the server no stream credit asks twice for a role of the wrong messaging pattern on an acknowledged topic and never reads the refusal; then the raw peer disconnects and a real client probes every acknowledged topic in its messaging pattern (3 messages published and received / 2 requests answered) and a fresh topic; then one registration with an invalid name in a frame just under the 1 MiB limit (must still be answered with the invalid-topic error); finally 25 rounds in which eight streams on four connections are released together on a fresh topic, four asking to subscribe and four to request: each must be answered Ok or the kind-mismatch error, the acknowledged ones must belong to one messaging pattern and must still be open 120 ms later, and every subscriber acknowledged in the race must receive the 3 messages of a publisher that registers afterwards; '
            'non-trivial = distinct (first frame kind, name, reply)')


def run(tier, seed, replay=None):
    check = Check('C11', tier, seed)
    prove(check, 'theories/Props_C11.v', THEOREMS)
    prove(check, 'theories/Props_C11_router.v', ROUTER_THEOREMS)
    engines = ['srv', 'rr']
    if replay:
        head = open(replay).read(4000)
        engines = [e for e in engines if ('case ' + e + ' ') in head] or engines[:1]
    if 'srv' in engines:
        differential(check, 'C11', 'srv', 'srv', tier, seed, replay, 3, 40, replay_text, sample_lines=10, timeout=1800)
    if 'rr' in engines:
        router_stage(check, 'C11', 'rr', tier, seed, replay, 80, 4000)
    check.coverage['rule'] = SRV_RULE + ' ; ' + RR_RULE
    check.coverage['trusted_base'] = TRUSTED_BASE_COMMON + ROUTER_TRUST + [
        'translator/serverfacts.py: statement-directed translation of server/src/server.rs handle_stream into the instruction language of ServerLang.v (every statement is recognised as an instruction or as pure, or the translation fails); Frame::get_topic; fn handle_reply',
        'modelled, not verified: one registration runs against the table it finds under the lock (atomicity of the locked section is theorem c17_table_section_atomic); tokio::spawn of the router, the #[cfg(feature = "__cloud")] branch (feature off), QUIC stream closure, and the wire encoding of the replies are observed by the srv scenarios, not modelled',
        'reading adopted: a first frame that carries no topic may be closed without a reply (the client library reports STREAM_CLOSED_PREMATURELY); the forbidden outcome is Ok followed by abandonment',
    ]
    return check.finish()
