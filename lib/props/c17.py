"""C17 — a stalled topic cannot block registration or traffic on other topics."""
from verif import *
from props.c05 import replay_text

THEOREMS = ['c17_program_keeps_the_discipline', 'c17_lock_holder_never_waits', 'c17_other_topics_progress', 'c17_table_section_atomic']


def run(tier, seed, replay=None):
    check = Check('C17', tier, seed)
    prove(check, 'theories/Props_C17.v', THEOREMS)
    differential(check, 'C17', 'stall', 'stall', tier, seed, replay, 1, 3, replay_text, sample_lines=10, timeout=1800, shards=8 if tier == 'quick' else 16)
    check.coverage['rule'] = ('stall: each case: in-process server on loopback QUIC; a real subscriber on topic A that is never polled, 8-12 messages of 1 MB published to A until the router '
                              'blocks on that subscriber (QUIC flow control), then N further registrations on A for N in {0, 95, 100, 101, 102, 110, 130, 250} spread over several raw connections '
                              '(roles mixed), in an order relative to the stall drawn per case (before / after / half-half); then a peer that grants the server no stream credit asks for two roles of the wrong messaging pattern on A and never reads the refusals, then for two roles that are fine (a subscription to A, one to a topic of its own) whose acknowledgement it never reads either, and the probing client asks, in the background and over the same connection, for 5 more subscriptions on A and publishes 200 KB messages to A (its publisher stream fills with bytes the stalled router never reads); then that client opens a subscriber and a publisher on topic B and '
                              'must receive 3 messages within the deadline, and a requestor/replier pair on topic C must complete a request; finally a second topic is stalled entirely over ONE client-library connection (never-polled subscriber, publisher flooding 256 KB messages until its sends stop completing) that also carries a calm pub/sub pair opened before the stall: the calm pair must still deliver a message and fresh streams must still open on that connection; non-trivial = distinct (N, order, roles)')
    check.coverage['trusted_base'] = TRUSTED_BASE_COMMON + [
        'translator/serverfacts.py: statement-directed translation of handle_stream (lock / unlock / replies / hand-off positions, own clone vs shared sender) and SOCK_CHANNEL_SIZE',
        'modelled, not verified: futures-channel 0.3 bounded mpsc (a sender is parked by its own send when the queue exceeds the buffer; every dequeue un-parks the longest-parked sender; a fresh clone is not parked); tokio::sync::Mutex is fair (FIFO), so the finitely many locked sections ahead of a waiting task end',
        'runtime facts exercised by the stall scenario only: a subscriber that stops reading blocks its router through QUIC flow control; topic_handles is locked only for a push',
    ]
    return check.finish()
