"""C05 — wire formats: layouts/tags/limits regenerated from the source, codec combinators with
generic round-trip proofs, frame codec + streaming decoder + batch codec theorems; differential
of MessageCodec (Encoder/Decoder, arbitrary chunking) and the batch functions."""
from verif import *

THEOREMS = ['c05_roundtrip', 'c05_prefix_is_length', 'c05_chunking', 'c05_encoder_limit',
            'c05_limit_is_one_mebibyte', 'c05_decoder_limit_early', 'c05_batch_roundtrip']

RULE = ('cases from one seeded PRNG: (stream) 1-5 structured random frames of all eight kinds (arbitrary UTF-8 topics, 0-3 headers incl. cid/req_id, '
        'payload sizes biased to 0,1,8,9,255,256 and, in every 25th case, to limit-24..limit+24), each encoded by the real Encoder, concatenated and cut '
        'by one of six chunking modes (whole, 1-byte, 1-3, 1-12, 1-2000, header-aligned sizes; optional empty chunk), decoded by the real Decoder; the same frames are also written one after the other into ONE buffer, which must equal the concatenation of the single encodings; (raw) '
        'oversize length prefixes, well-framed type-confused frames (valid length, any type byte, random or foreign payload) and mutated valid streams (truncate, bit flips, adversarial 8-byte values, garbage tail, byte removal); (batch) message lists '
        'and mutated/arbitrary batch bytes, and well-formed batches in which ONE aligned field (the count or one length marker) is replaced by a boundary value (2^64-1 .. 2^64-9, 2^63, around the bytes that remain, around the frame limit and 2^32), optionally truncated; non-trivial = distinct case text')


def replay_text(lines):
    # failing verdict lines carry "line=<n>" of the trace; the replay file is the set of case blocks
    out = []
    for l in lines:
        parts = l.split(' | ')
        if len(parts) >= 4:
            block = parts[3].replace(' ;; ', '\n')
            out.append(block)
    return '\n'.join(out) + '\n'


def run(tier, seed, replay=None):
    check = Check('C05', tier, seed)
    prove(check, 'theories/Props_C05.v', THEOREMS)
    differential(check, 'C05', 'wire', 'c05', tier, seed, replay, 60, 3000, replay_text, sample_lines=6)
    check.coverage['rule'] = RULE
    check.coverage['trusted_base'] = TRUSTED_BASE_COMMON + [
        'modelled, not verified: bincode 1.3 fixint little-endian format for the types used (theories/Bincode.v), serde derive (field order = declaration order), bytes::{Buf,BufMut}, tokio_util FramedRead feed/decode loop - validated byte-for-byte by the differential',
        'header maps: HashMap iteration order is a parameter of the encoder (the list order carried by the frame); decoded headers are compared as maps',
    ]
    check.assumptions = ['frames satisfy wire_ok: strings valid UTF-8, lengths < 2^64, payload <= limit (for round-trip/chunking)']
    return check.finish()
