"""C08 — a failing peer is dropped without harming the others."""
from verif import *
from props.routers import *

THEOREMS = ['c08_pubsub_others_unaffected', 'c08_fanout_evicts_exactly_one', 'c08_invariant_reachable', 'c08_reqrep_survives_failures']


def run(tier, seed, replay=None):
    check = Check('C08', tier, seed)
    if THEOREMS:
        prove(check, 'theories/Props_C08.v', THEOREMS)
    engines = ['ps', 'rr']
    if replay:
        head = open(replay).read(4000)
        engines = [e for e in engines if ('case ' + e + ' ') in head] or engines[:1]
    for e in engines:
        router_stage(check, 'C08', e, tier, seed, replay, 80, 4000)
    check.coverage['rule'] = ' ; '.join(r for e, r in (('ps', PS_RULE), ('rr', RR_RULE)) if e in engines)
    check.coverage['trusted_base'] = TRUSTED_BASE_COMMON + ROUTER_TRUST
    return check.finish()
