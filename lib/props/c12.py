"""C12 — streams re-establish themselves after connection loss, within the retry budget."""
from verif import *
from props.c05 import replay_text

THEOREMS = ['c12_pubsub_fresh_budget_per_outage', 'c12_pubsub_exhaustion_reported', 'c12_pubsub_recovers_within_budget',
            'c12_exhausted_is_final', 'c12_unrecoverable_immediate', 'c12_reqrep_fresh_budget_per_outage',
            'c12_reqrep_exhaustion_reported', 'c12_reqrep_squatted_topic_exhausts', 'c12_error_classification']


def run(tier, seed, replay=None):
    check = Check('C12', tier, seed)
    prove(check, 'theories/Props_C12.v', THEOREMS)
    differential(check, 'C12', 'c12', 'c12', tier, seed, None, 1, 10, replay_text, sample_lines=8, timeout=1800, shards=10 if tier == 'quick' else 16)
    # the budget itself: the schedule every outage draws from yields exactly the configured number of attempts
    # (the backoff engine of C13, judged here for the number of attempts only)
    differential(check, 'C12b', 'backoff', 'c13', tier, seed + 11, None, 100, 2000, extract_between_bars, driver_extra=['count'])
    check.coverage['rule'] = ('each case: in-process server on loopback QUIC; client A (max_attempts 1-3, constant / linear / exponential back-off, step 0/10/40 ms) holds one stream of the '
                              'kind under test, client B the counterpart; the hook closes A\'s connection max_attempts+1..+2 times in a row, after each cut the stream must work again '
                              '(probe message delivered / request answered; every second publisher case has two 9 KiB messages fed but not flushed in the write buffer when the connection is cut, so that the outage is first seen by poll_ready; for the requestor also: while a slowly answered call on the recovered handle is in flight, a clone made before the outages makes its first call since the cut and recovers on its own, then makes another: every call must get its own reply); replier_exhaust: after the cut a squatter binds the topic and A must report too-many-retries; kinds rotate over '
                              'publisher, subscriber, requestor, replier, replier_exhaust; non-trivial = distinct case line ; budget: the back-off engine of C13 (boundary and random configurations, the three setters in any order), judged for the NUMBER of attempts each schedule yields')
    check.coverage['trusted_base'] = TRUSTED_BASE_COMMON + [
        'hook: Client::__verif_close_connection (cargo feature verif-hooks of the selium crate, off by default, add-only)',
        'not modelled: wall-clock sleeps, QUIC handshake/timeouts, ClientConnection::reconnect; observed by the scenarios',
    ]
    return check.finish()
