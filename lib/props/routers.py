"""Shared by C01 C08 C09 C16 (and C02 C10 C11 for req/rep): run the router simulations and
attribute predicate failures to properties."""
import re
from verif import *


def router_stage(check, prop_id, engine, tier, seed, replay, quick_per_shard, thorough_per_shard):
    """engine: 'ps' (pub/sub) or 'rr' (req/rep).  A failing case counts as a violation of
    `prop_id` when the judge attributes one of its failed predicates to that property;
    failures attributed only to other properties are reported as broken correspondence (the
    other property's own check reports them as violations)."""
    tag = prop_id.lower()

    def mine(line):
        m = re.search(r'viol=([\w,]*)', line)
        return bool(m) and tag in m.group(1).split(',')

    ok, out = build_driver()
    if not ok:
        check.obligation_broken('extraction / driver build', out)
    okh, outh = build_harness()
    if not okh:
        check.obligation_broken('harness does not build against the current /repo', outh)
    if not (ok and okh):
        return
    os.makedirs(WORK, exist_ok=True)
    hb = harness_bin()
    cmds = []
    if replay:
        cmds.append(([hb, engine, 'replay', replay], os.path.join(WORK, '%s_%s_replay.trace' % (tag, engine))))
    else:
        for corpus_id in (prop_id, 'routers_' + engine):
            corpus = os.path.join(VERIF, 'corpus', corpus_id)
            if os.path.isdir(corpus):
                for f in sorted(os.listdir(corpus)):
                    if f.startswith(engine + '_'):
                        cmds.append(([hb, engine, 'replay', os.path.join(corpus, f)], os.path.join(WORK, '%s_%s_corpus_%s.trace' % (tag, engine, f))))
        per = quick_per_shard if tier == 'quick' else thorough_per_shard
        for i in range(NPROC):
            cmds.append(([hb, engine, 'gen', str(seed * 1000 + i), str(per)], os.path.join(WORK, '%s_%s_gen_%d.trace' % (tag, engine, i))))
    rcs = run_parallel(cmds)
    traces = []
    for (argv, t), rc in zip(cmds, rcs):
        if rc != 0:
            check.obligation_broken('harness run failed (exit %s): %s' % (rc, ' '.join(argv[1:])), open(t).read()[-2000:])
        else:
            traces.append(t)
    outs = [t + '.verdict' for t in traces]
    rcs = run_parallel([([os.path.join(OCAML, 'driver'), engine, t], o) for t, o in zip(traces, outs)])
    agg, maps = {}, {}
    mine_fail, other_fail, corr_only = [], [], []
    for rc, o, t in zip(rcs, outs, traces):
        text = open(o).read()
        if rc != 0 or 'summary ' not in text:
            check.obligation_broken('driver failed on %s (exit %s)' % (os.path.basename(t), rc), text[-2000:])
            continue
        parse_summary(text, agg, maps)
        for line in text.splitlines():
            if 'prop=FAIL' in line:
                m = re.search(r'\| line=(\d+) \|', line)
                entry = (line, t, int(m.group(1)) if m else None)
                (mine_fail if mine(line) else other_fail).append(entry)
            elif 'corr=DIFF' in line:
                corr_only.append(line)
    samples = []
    for t in traces[-1:]:
        lines = open(t).read().splitlines()
        samples.append(' / '.join(l for l in lines[:60]))
    if mine_fail:
        texts = sorted((case_block(t, ln) for (_, t, ln) in mine_fail[:300] if ln), key=len)
        text = ''.join(texts[:5]) + '\n# verdicts\n' + '\n'.join('# ' + l[:600] for (l, _, _) in mine_fail[:10]) + '\n'
        path = write_replay(prop_id, 'failing_%s_cases.txt' % engine, text)
        check.violation('%d %s history(ies) on which the real router violates a %s predicate' % (len(mine_fail), engine, prop_id), path)
    if other_fail and not mine_fail:
        check.obligation_broken('%d %s history(ies) violate predicates of neighbouring properties (their own checks report them)' % (len(other_fail), engine),
                                '\n'.join(l[:600] for (l, _, _) in other_fail[:10]))
    if corr_only:
        check.obligation_broken('correspondence: the model rejects %d implementation trace(s) on which every predicate still holds' % len(corr_only),
                                '\n'.join(l[:600] for l in corr_only[:10]))
    cov = check.coverage
    cov['evaluations'] = cov.get('evaluations', 0) + agg.get('cases', 0)
    cov['distinct_nontrivial'] = cov.get('distinct_nontrivial', 0) + agg.get('nontrivial', 0)
    cov['traces_validated_against_impl'] = cov.get('traces_validated_against_impl', 0) + agg.get('cases', 0) - agg.get('corr_fail', 0)
    cov['samples'] = cov.get('samples', []) + samples
    cov['disagreements'] = cov.get('disagreements', 0) + agg.get('corr_fail', 0)
    cov['property_failures'] = cov.get('property_failures', 0) + len(mine_fail)
    cov.setdefault('input_distribution', {})[engine] = dict({k: v for k, v in agg.items() if k not in ('cases', 'corr_fail', 'prop_fail', 'nontrivial')}, **maps)


PS_RULE = ('(ps) histories of the real pubsub::Topic<u64,_> future driven by a hand-rolled executor: 4-70 random steps of {poll, queue a publisher stream, queue a '
           'subscriber sink, fire the kept waker of a random pending mock, close the channel}, mock answers drawn per call from a per-case profile '
           '(sink pending 0-80%, sink/send errors 0-15%, stream item/pending/error/end weights), at most 40 items per poll; half of the cases poll only when the '
           'task was woken; final phase quiesce|close|none under the wake-driven executor with every sink ready, except that in one case in three the first flush asked of a subscriber during that phase fails once; non-trivial = history with at least one '
           'Pending or Err answer from a sink')

ROUTER_TRUST = [
    'modelled, not verified: tokio_stream::StreamMap::poll_next_entry 0.1.14 (index arithmetic transcribed, start index read from the trace), futures::mpsc '
    'receiver (answers a function of what was queued; waker armed by a Pending answer, consumed by send/close_channel), Vec::swap_remove - all validated event '
    'for event, including the predicted wake-up bits, by the acceptor on every implementation trace',
    'the Future/Waker contract of the executor (tokio) is assumed: a task is re-polled after its waker fires',
]


RR_RULE = '(rr) histories of the real reqrep::Topic future: 4-80 random steps of {poll, queue a requestor (sink+stream), queue a replier, fire a kept waker, close the channel}; requestor streams yield requests with forged / junk / absent routing tags, colliding req_ids and non-message frames; the mock replier answers received requests out of order and emits replies with missing, unknown (>= 10^6), malformed or unsolicited tags and non-message frames; replier registrations arrive in bursts (0-3 extra repliers); per-case answer profile as for (ps); final phase quiesce|close|none under the wake-driven executor; one drained history in three (every stream ended, including that of the bound replier) ends with a late replier that must become the bound one; mock streams are fused (End for ever after their end); one case in twelve is a burst (hundreds of frames ready at once, every sink accepting); non-trivial = history with at least one Pending or Err answer from a sink'
