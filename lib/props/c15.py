"""C15 — mutual TLS: only peers certified by the configured CA can talk."""
from verif import *
from props.c05 import replay_text

THEOREMS = ['c15_only_trusted_clients', 'c15_only_trusted_servers', 'c15_untrusted_identities_refused', 'c15_generator_adequate']


def run(tier, seed, replay=None):
    check = Check('C15', tier, seed)
    prove(check, 'theories/Props_C15.v', THEOREMS)
    differential(check, 'C15', 'tls', 'tls', tier, seed, replay, 1, 4, replay_text, sample_lines=10, timeout=1800, shards=2 if tier == 'quick' else 8)
    check.coverage['rule'] = ('tls: each case: two certificate sets freshly produced by the repository\'s generator (trusted, other) and one self-signed client certificate (rcgen); server T presents the '
                              'trusted server certificate, server O the other set\'s, both started with the trusted CA; clients trust the trusted CA and present {trusted client cert, other-CA client cert, '
                              'self-signed, the trusted *server* certificate, nothing}; every pairing is tried through the client library (4 identities) and through a raw QUIC peer (5), outcome = whether a '
                              'publisher registration is acknowledged; then, in the same process, a client configured with the OTHER CA (presenting the trusted client certificate) must refuse server T and talk to server O; finally a server whose --cert file is a PEM bundle (other leaf + other CA), started with the trusted CA, is tried by clients trusting the other CA: the other-CA client must be refused, the trusted client admitted; and a set renewed in place three times (the generator run again into the same directories, first without expiry, then with: the new files are shorter than the ones they replace) must still work for localhost after each renewal; non-trivial = distinct (server, identity, path)')
    check.coverage['trusted_base'] = TRUSTED_BASE_COMMON + [
        'translator/tlsfacts.py: each configuration fact is matched against the exact construct that establishes it (verifier constructor, root store source, builder chains, server name, generator parameters); any `dangerous()` / custom verifier under client/src or server/src makes the translation fail',
        'modelled, not verified: rustls 0.21 / webpki / ring (certificate parsing, signature verification, validity periods, path building) are represented by a symbolic PKI in which "issuer_key = k" means a valid signature by k; the handshake itself is exercised by the tls scenarios with fresh keys each run',
        'rcgen (harness dependency, the version the repository\'s generator uses) for the self-signed certificate',
    ]
    return check.finish()
