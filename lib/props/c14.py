"""C14 — payload transforms are lossless."""
from verif import *

THEOREMS = ['c14_string_roundtrip', 'c14_string_never_wrong', 'c14_bytes_roundtrip', 'c14_bincode_roundtrip',
            'c14_item_types_ok', 'c14_wrappers_pair_formats', 'c14_presets_in_range', 'c14_wire_composition']


def run(tier, seed, replay=None):
    check = Check('C14', tier, seed)
    prove(check, 'theories/Props_C14.v', THEOREMS)
    # shards must be exactly 16: the per-level sweep is spread over seed % 16
    is_dec = bool(replay) and any(l.startswith('in ') for l in open(replay).read().splitlines())
    if not replay or not is_dec:
        differential(check, 'C14', 'transforms', 'c14', tier, seed * 16, replay, 40, 3000, extract_between_bars, shards=16)
    # the rejection clause: bytes that are not valid for a codec are an error, never a wrong value
    if not replay or is_dec:
        differential(check, 'C14d', 'decoders', 'c06', tier, seed + 5, replay, 120, 6000, extract_between_bars, timeout=3000)
    check.coverage['rule'] = ('every run: each of gzip, zlib, zstd, lz4, brotli generic/text/font at EVERY level (default, three presets, explicit 0..9 / 1..22 / 0..11) on an empty, a tiny, '
                              'a repetitive, a text-like and a large incompressible payload (32 KiB-1 .. 200 KiB, around the libraries\' block sizes) (spread over 16 shards); plus seeded cases: random algorithm/level x payload class {empty, tiny, incompressible, repetitive, '
                              'text, large incompressible (every 10th), ~1 MiB repetitive / ~1 MiB incompressible / noise-run-noise (every 50th each)}, codec round-trips (string, bytes, bincode struct / Vec<String> / Option<(u32, Vec<u8>)>), wire compositions of 0-5 items; and the rejection clause on the decoders engine of C06 (valid encodings of every codec perturbed by truncation - also inside a multi-byte character -, bit flips, adversarial lengths, garbage tails, invalid UTF-8 fragments: the string codec must answer ok exactly on valid UTF-8 and every codec must agree with its model on value or error); '
                              'non-trivial = distinct case line')
    check.coverage['trusted_base'] = TRUSTED_BASE_COMMON + [
        'NOT verified (third-party): flate2/miniz_oxide, zstd (C), lz4_flex, brotli: decompress(compress b) = b is their contract, checked by the run for every algorithm x level',
        'translator facts (translator/compfacts.py): which encoder/decoder type each enum arm constructs, write_all + finish/flush before the bytes are taken, preset constants',
    ]
    return check.finish()
