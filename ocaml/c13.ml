(* C13: judges implementation traces of the back-off iterator.
   For each case: (corr) the translated model's observation equals the implementation's;
   (prop) the implementation's observation equals the law's schedule (spec_obs). *)
open Model
open Util

type impl_obs = { items : (n * n * n) list; ended : bool; panic : String.t option }

let parse_out (line : String.t) : (n * n * n) list * bool =
  match split_ws line with
  | "out" :: rest ->
    let ended = List.mem "end" rest in
    let items = List.filter_map (fun t ->
      if t = "end" then None else
      match String.split_on_char ':' t with
      | [a; d; m] -> Some (n_of_string a, n_of_string d, n_of_string m)
      | _ -> failwith ("bad out token " ^ t)) rest in
    (items, ended)
  | _ -> failwith ("bad out line " ^ line)

let show_items items =
  String.concat " " (List.map (fun (a, d, m) -> string_of_n a ^ ":" ^ string_of_n d ^ ":" ^ string_of_n m) items)

let show_obs = function
  | Obs (items, e) -> "out " ^ show_items (List.map (fun ((a, d), m) -> (a, d, m)) items) ^ (if e then " end" else "")
  | ObsPanic (items, s) -> "out " ^ show_items (List.map (fun ((a, d), m) -> (a, d, m)) items) ^ " panic:" ^ ocaml_string s

let obs_equal_impl (o : obs) (i : impl_obs) : bool =
  match o, i.panic with
  | Obs (items, e), None -> List.map (fun ((a, d), m) -> (a, d, m)) items = i.items && e = i.ended
  | ObsPanic (items, _), Some _ -> List.map (fun ((a, d), m) -> (a, d, m)) items = i.items
  | _ -> false

(* [count_only]: judged for C12 -- the budget an outage draws from: the number of attempts the schedule
   yields (and that it ends, without panicking) must be the configured one; the delays are C13's business *)
let run (path : String.t) (debug : bool) (count_only : bool) =
  let lines = Array.of_list (read_lines path) in
  let n = Array.length lines in
  let i = ref 0 and cases = ref 0 and corr_fail = ref 0 and prop_fail = ref 0 in
  let nontrivial = Hashtbl.create 97 in
  let kinds = Hashtbl.create 7 in
  let saturated = ref 0 and clamped = ref 0 and exhausted = ref 0 and skipped = ref 0 in
  while !i < n do
    let l = lines.(!i) in
    incr i;
    match split_ws l with
    | ["case"; kind; factor; step; maxatt; maxd; take] ->
      let out_line = lines.(!i) in
      incr i;
      let panic = if !i < n && String.length lines.(!i) >= 5 && String.sub lines.(!i) 0 5 = "panic"
        then (let p = lines.(!i) in incr i; Some p) else None in
      let items, ended = parse_out out_line in
      let impl = { items; ended; panic } in
      let c = { c_kind = (match kind with "linear" -> KLinear | "constant" -> KConstant | _ -> KExponential (n_of_string factor));
                c_step = n_of_string step; c_max_attempts = n_of_string maxatt;
                c_max = (if maxd = "-" then None else Some (n_of_string maxd)) } in
      let calls = nat_of_int (int_of_string take + 1) in
      incr cases;
      Hashtbl.replace kinds kind (1 + (try Hashtbl.find kinds kind with Not_found -> 0));
      if not (cfg_wfb c) then begin
        (* outside the theorem's hypotheses (max_attempts = u32::MAX): reported, not judged *)
        incr skipped;
        Printf.printf "case %d skipped=not-wf\n" !cases
      end else begin
        let model = Model.run debug calls (into_iter c) in
        let spec = spec_obs c calls in
        let corr = obs_equal_impl model impl in
        let prop =
          if count_only then
            (match spec with
             | Obs (items, e) -> impl.panic = None && List.length items = List.length impl.items && e = impl.ended
             | ObsPanic _ -> true)
          else obs_equal_impl spec impl && impl.panic = None in
        let corr = if count_only then true else corr in
        if not corr then incr corr_fail;
        if not prop then incr prop_fail;
        if impl.ended then incr exhausted;
        List.iter (fun (a, d, _) ->
          if d = dUR_MAX then incr saturated;
          (match c.c_max with Some m when d = m -> incr clamped | _ -> ())) impl.items;
        if List.length impl.items >= 2 then Hashtbl.replace nontrivial (kind, factor, step, maxatt, maxd) ();
        Printf.printf "case %d corr=%s prop=%s%s\n" !cases (if corr then "ok" else "DIFF") (if prop then "ok" else "FAIL")
          (if corr && prop then "" else
             let cut s = if String.length s > 400 then String.sub s 0 400 ^ "..." else s in
             Printf.sprintf " | %s | impl: %s%s | model: %s | spec: %s" l (cut out_line)
               (match panic with Some p -> " " ^ p | None -> "") (cut (show_obs model)) (cut (show_obs spec)))
      end
    | _ -> ()
  done;
  Printf.printf "summary cases=%d corr_fail=%d prop_fail=%d nontrivial=%d skipped=%d saturated_items=%d clamped_items=%d exhausted_cases=%d kinds=%s\n"
    !cases !corr_fail !prop_fail (Hashtbl.length nontrivial) !skipped !saturated !clamped !exhausted
    (String.concat "," (Hashtbl.fold (fun k v acc -> (k ^ ":" ^ string_of_int v) :: acc) kinds []))
