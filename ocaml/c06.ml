(* C06 (payload decoders): judges traces of the `decoders` harness engine.
   prop: no decoder panics or aborts, whatever the bytes; the string codec answers ok exactly on
         valid UTF-8 and then returns the same bytes; the bytes codec returns its input.
   corr: for string / bytes / bincode item types the model gives the same value or error. *)
open Model
open Util

let bytes_of (h : String.t) : n list = List.map n_of_int (bytes_of_hex h)

let run (path : String.t) =
  let lines = Array.of_list (read_lines path) in
  let n = Array.length lines in
  let i = ref 0 and cases = ref 0 and corr_fail = ref 0 and prop_fail = ref 0 in
  let oks = ref 0 and errs = ref 0 and panics = ref 0 and aborts = ref 0 in
  let distinct = Hashtbl.create 997 in
  let kinds = Hashtbl.create 17 in
  while !i + 1 < n do
    let l = lines.(!i) and r = lines.(!i + 1) in
    (match split_ws l, split_ws r with
     | "in" :: kind :: rest, ("out" :: res) ->
       i := !i + 2;
       incr cases;
       Hashtbl.replace distinct l ();
       Hashtbl.replace kinds kind (1 + try Hashtbl.find kinds kind with Not_found -> 0);
       let input = bytes_of (match rest with h :: _ -> h | _ -> "-") in
       let expected = List.fold_left (fun acc t -> if String.length t > 4 && String.sub t 0 4 = "exp=" then Some (String.sub t 4 (String.length t - 4)) else acc) None rest in
       let status = (match res with s :: _ -> s | [] -> "?") in
       (match status with "ok" -> incr oks | "err" -> incr errs | "panic" -> incr panics | _ -> incr aborts);
       let prop = ref (status = "ok" || status = "err") and corr = ref true in
       let value = (match res with _ :: v -> v | [] -> []) in
       (match kind with
        | "string" ->
          let m = string_decode input in
          (match m, status with
           | Some s, "ok" -> if value <> [hex_of_ints (List.map int_of_n s)] then corr := false
           | None, "err" -> ()
           | _ -> corr := false);
          if utf8_valid input then (if not (status = "ok" && value = [hex_of_ints (List.map int_of_n input)]) then prop := false)
          else (if status <> "err" then prop := false)
        | "bytes" ->
          if not (status = "ok" && value = [hex_of_ints (List.map int_of_n input)]) then (prop := false; corr := false)
        | "bincode_dummy" ->
          (match bincode_decode c_Dummy input, status with
           | Some (foo, bar), "ok" -> if value <> [hex_of_ints (List.map int_of_n foo); string_of_n bar] then corr := false
           | None, "err" -> ()
           | _ -> corr := false)
        | "bincode_vec" ->
          (match bincode_decode c_VecString input, status with
           | Some v, "ok" ->
             if value <> (string_of_int (List.length v) :: List.map (fun s -> hex_of_ints (List.map int_of_n s)) v) then corr := false
           | None, "err" -> ()
           | _ -> corr := false)
        | "bincode_opt" ->
          (match bincode_decode c_OptT input, status with
           | Some None, "ok" -> if value <> ["N"] then corr := false
           | Some (Some (a, b)), "ok" -> if value <> ["S"; string_of_n a; hex_of_ints (List.map int_of_n b)] then corr := false
           | None, "err" -> ()
           | _ -> corr := false)
        | "bincode_unit" ->
          (* a value whose encoding is empty decodes from any bytes (nothing is read; trailing bytes are allowed by bincode::deserialize) *)
          if not (status = "ok" && value = ["U"]) then (prop := false; corr := false)
        | _ ->
          (* a compression of a known payload, untouched: decompressing it gives that payload back (length and hash) *)
          (match expected with
           | Some e -> if not (status = "ok" && value = [e]) then prop := false
           | None -> ()));
       if not !corr then incr corr_fail;
       if not !prop then incr prop_fail;
       if not (!corr && !prop) then
         Printf.printf "case %d corr=%s prop=%s | %s | impl: %s\n" !cases (if !corr then "ok" else "DIFF") (if !prop then "ok" else "FAIL")
           (if String.length l > 3000 then String.sub l 0 3000 else l) r
     | _ -> incr i)
  done;
  Printf.printf "summary cases=%d corr_fail=%d prop_fail=%d nontrivial=%d ok_results=%d err_results=%d panics=%d aborts=%d kinds=%s\n"
    !cases !corr_fail !prop_fail (Hashtbl.length distinct) !oks !errs !panics !aborts
    (String.concat "," (Hashtbl.fold (fun k v acc -> (k ^ ":" ^ string_of_int v) :: acc) kinds []))
