(* C05 / C06 (wire part): judges traces of the `wire` harness engine.
   corr: the model (Wire.v over the regenerated layouts) reproduces every implementation result:
         encode bytes (header order read from the implementation's bytes), every decode result
         of the streaming decoder, the final buffer length, the batch codec results.
   prop: evaluated on the implementation's outputs:
     P1 each frame whose payload is <= limit encodes; its first 8 bytes (big endian) equal
        the number of bytes after the 9-byte header; payload > limit => encode error
     P2 the decoder, fed the concatenation in the recorded chunks, yields exactly the frames
        (headers as maps), consumes everything, reports no error and never panics
     P3 a length prefix > limit is refused as soon as 9 bytes are present (no frame before it)
     P4 no input makes decode or decode_message_batch panic (C06)
     P5 unbatch(batch(ms)) = ms *)
open Model
open Util

let bytes_of (h : String.t) : n list = List.map n_of_int (bytes_of_hex h)
let str_of_bytes (b : n list) = hex_of_ints (List.map int_of_n b)

let parse_ops (t : String.t list) : operation list =
  match t with
  | cnt :: rest ->
    let rec go k r = if k = 0 then [] else match r with
      | "M" :: h :: r' -> Operation_Map (bytes_of h) :: go (k - 1) r'
      | "F" :: h :: r' -> Operation_Filter (bytes_of h) :: go (k - 1) r'
      | _ -> failwith "ops" in
    go (int_of_string cnt) rest
  | [] -> []

let parse_frame (t : String.t list) : frame =
  match t with
  | "RP" :: ns :: tp :: ret :: ops -> F_RegisterPublisher { pp_topic = { tn_namespace = bytes_of ns; tn_topic = bytes_of tp }; pp_retention_policy = n_of_string ret; pp_operations = parse_ops ops }
  | "RS" :: ns :: tp :: ret :: ops -> F_RegisterSubscriber { sp_topic = { tn_namespace = bytes_of ns; tn_topic = bytes_of tp }; sp_retention_policy = n_of_string ret; sp_operations = parse_ops ops }
  | ["RR"; ns; tp] -> F_RegisterReplier { tn_namespace = bytes_of ns; tn_topic = bytes_of tp }
  | ["RQ"; ns; tp] -> F_RegisterRequestor { tn_namespace = bytes_of ns; tn_topic = bytes_of tp }
  | ["M"; "N"; msg] -> F_Message { mp_headers = None; mp_message = bytes_of msg }
  | "M" :: "S" :: cnt :: rest ->
    let k = int_of_string cnt in
    let rec go k r = if k = 0 then ([], r) else match r with
      | a :: b :: r' -> let (l, r'') = go (k - 1) r' in ((bytes_of a, bytes_of b) :: l, r'')
      | _ -> failwith "hdrs" in
    let (h, r) = go k rest in
    (match r with [msg] -> F_Message { mp_headers = Some h; mp_message = bytes_of msg } | _ -> failwith "msg")
  | ["B"; b] -> F_BatchMessage (bytes_of b)
  | ["E"; code; msg] -> F_Error { ep_code = n_of_string code; ep_message = bytes_of msg }
  | ["OK"] -> F_Ok
  | _ -> failwith ("frame descr: " ^ String.concat " " t)

let limit = n_of_int 1048576

type dec_ev = DGot of frame | DErr | DPanic

let run (path : String.t) =
  let lines = Array.of_list (read_lines path) in
  let n = Array.length lines in
  let i = ref 0 and cases = ref 0 and corr_fail = ref 0 and prop_fail = ref 0 in
  let frames_total = ref 0 and too_large = ref 0 and chunks_total = ref 0 and raw_cases = ref 0
  and batch_cases = ref 0 and dec_errs = ref 0 and multi_chunk = ref 0 and oversize_prefix = ref 0 in
  let distinct = Hashtbl.create 997 in
  let kinds = Hashtbl.create 17 in
  let bump k = Hashtbl.replace kinds k (1 + try Hashtbl.find kinds k with Not_found -> 0) in
  let verdict start corr prop why =
    if not corr then incr corr_fail;
    if not prop then incr prop_fail;
    if not (corr && prop) then begin
      let b = Buffer.create 256 in
      let j = ref start in
      while !j < n && (!j = start || not (String.length lines.(!j) >= 5 && String.sub lines.(!j) 0 5 = "case ")) do
        let l = lines.(!j) in
        Buffer.add_string b (if String.length l > 300 then String.sub l 0 300 ^ "..." else l);
        Buffer.add_string b " ;; ";
        incr j
      done;
      Printf.printf "case %d corr=%s prop=%s | line=%d | why: %s | %s\n" !cases
        (if corr then "ok" else "DIFF") (if prop then "ok" else "FAIL") (start + 1) why
        (let s = Buffer.contents b in if String.length s > 1500 then String.sub s 0 1500 ^ "..." else s)
    end in
  let collect_block () =
    (* lines of the current case after the header, up to the next case *)
    let acc = ref [] in
    while !i < n && not (String.length lines.(!i) >= 5 && String.sub lines.(!i) 0 5 = "case ") do
      acc := lines.(!i) :: !acc; incr i
    done;
    List.rev !acc in
  let parse_dec block =
    List.filter_map (fun l -> match split_ws l with
      | "got" :: t -> Some (DGot (parse_frame t))
      | ["dec_err"] -> Some DErr
      | "dec_panic" :: _ -> Some DPanic
      | _ -> None) block in
  let end_len block = List.fold_left (fun acc l -> match split_ws l with ["end"; k] -> int_of_string k | _ -> acc) (-1) block in
  let chunks_of block = List.fold_left (fun acc l -> match split_ws l with "chunks" :: t -> List.map bytes_of t | _ -> acc) [] block in
  let model_decode chunks =
    match run_feed chunks with
    | Val (fs, st) -> (List.map (fun f -> DGot f) fs @ (if st.r_failed then [DErr] else []), List.length st.r_buf, false)
    | Panic _ -> ([], 0, true) in
  let ev_equal a b = match a, b with
    | DGot f, DGot g -> norm_frame f = norm_frame g
    | DErr, DErr -> true
    | DPanic, DPanic -> true
    | _ -> false in
  let rec evs_equal a b = match a, b with
    | [], [] -> true
    | x :: a', y :: b' -> ev_equal x y && evs_equal a' b'
    | _ -> false in
  while !i < n do
    let l = lines.(!i) in
    let start = !i in
    incr i;
    if l = "case stream" then begin
      incr cases;
      let block = collect_block () in
      let frames = List.filter_map (fun l -> match split_ws l with "f" :: t -> Some (parse_frame t) | _ -> None) block in
      let encs = List.filter_map (fun l -> match split_ws l with
        | ["enc"; "ok"; h] -> Some (Some (bytes_of h)) | ["enc"; "err"] -> Some None | "enc" :: "panic" :: _ -> Some None | _ -> None) block in
      let enc_panic = List.exists (fun l -> match split_ws l with "enc" :: "panic" :: _ -> true | _ -> false) block in
      let chunks = chunks_of block in
      let impl_evs = parse_dec block in
      let impl_end = end_len block in
      frames_total := !frames_total + List.length frames;
      chunks_total := !chunks_total + List.length chunks;
      if List.length chunks > 1 then incr multi_chunk;
      List.iter (fun f -> bump (match f with F_RegisterPublisher _ -> "RegisterPublisher" | F_RegisterSubscriber _ -> "RegisterSubscriber"
        | F_RegisterReplier _ -> "RegisterReplier" | F_RegisterRequestor _ -> "RegisterRequestor" | F_Message _ -> "Message"
        | F_BatchMessage _ -> "BatchMessage" | F_Error _ -> "Error" | F_Ok -> "Ok")) frames;
      Hashtbl.replace distinct (String.concat "\n" block) ();
      let corr = ref true and prop = ref (not enc_panic) and why = ref "" in
      let note s = if !why = "" then why := s in
      if List.length encs <> List.length frames then (corr := false; note "enc line count");
      let accepted = ref [] in
      List.iter2 (fun f e ->
        let len = frame_length f in
        let should_fit = N.leb len limit in
        (match e with
         | Some b ->
           accepted := f :: !accepted;
           (* P1 *)
           if not should_fit then (prop := false; note "payload above the limit was encoded");
           let blen = List.length b in
           if blen < 9 then (prop := false; note "short encoding")
           else begin
             let prefix = List.filteri (fun k _ -> k < 8) b in
             if int_of_n (be_val prefix) <> blen - 9 then (prop := false; note "length prefix <> payload length")
           end;
           (* corr: model decodes impl bytes to the same frame and re-encodes them identically *)
           (match decode b with
            | Val ((Got (f', []), _)) ->
              if norm_frame f' <> norm_frame f then (corr := false; note "model decodes impl bytes to another frame");
              (match encode f' with
               | EncOk b' -> if b' <> b then (corr := false; note "model encoding differs from impl bytes")
               | EncTooLarge _ -> (corr := false; note "model refuses to encode"))
            | _ -> (corr := false; note "model cannot decode impl bytes"))
         | None ->
           incr too_large;
           if should_fit then (prop := false; note "payload within the limit was refused");
           (match encode f with EncTooLarge _ -> () | EncOk _ -> (corr := false; note "model encodes, impl refuses"))))
        frames (if List.length encs = List.length frames then encs else List.map (fun _ -> None) frames);
      let accepted = List.rev !accepted in
      (* the same frames written into one buffer: the concatenation of their encodings *)
      List.iter (fun l -> match split_ws l with
        | ["shared"; "panic"] -> (prop := false; note "encoder panicked when writing into a buffer that already holds frames")
        | ["shared"; h] ->
          let got = if h = "-" then [] else bytes_of h in
          let want = List.concat (List.filter_map (fun e -> e) encs) in
          if got <> want then (prop := false; note "frames encoded one after the other into one buffer differ from the concatenation of their encodings")
        | _ -> ()) block;
      (* P2 *)
      let want = List.map (fun f -> DGot f) accepted in
      if not (evs_equal impl_evs want) then (prop := false; note "decoded frame sequence differs from the frames sent");
      if impl_end <> 0 then (prop := false; note "bytes left in the decoder buffer");
      let (m_evs, m_end, m_panic) = model_decode chunks in
      if m_panic || not (evs_equal m_evs impl_evs) || m_end <> impl_end then (corr := false; note "model decoder differs from impl decoder");
      verdict start !corr !prop !why
    end else if l = "case raw" then begin
      incr cases; incr raw_cases;
      let block = collect_block () in
      let chunks = chunks_of block in
      let impl_evs = parse_dec block in
      let impl_end = end_len block in
      chunks_total := !chunks_total + List.length chunks;
      Hashtbl.replace distinct (String.concat "\n" block) ();
      let corr = ref true and prop = ref true and why = ref "" in
      let note s = if !why = "" then why := s in
      if List.mem DPanic impl_evs then (prop := false; note "decoder panicked");
      if List.mem DErr impl_evs then incr dec_errs;
      let all = List.concat chunks in
      if List.length all >= 9 && N.ltb limit (be_val (List.filteri (fun k _ -> k < 8) all)) then begin
        incr oversize_prefix;
        (* P3 *)
        if impl_evs <> [DErr] then (prop := false; note "oversize length prefix not refused at once")
      end;
      let (m_evs, m_end, m_panic) = model_decode chunks in
      if m_panic || not (evs_equal m_evs impl_evs) || (m_end <> impl_end && not (List.mem DErr impl_evs)) then (corr := false; note "model decoder differs from impl decoder");
      verdict start !corr !prop !why
    end else if l = "case batch" then begin
      incr cases; incr batch_cases;
      let block = collect_block () in
      Hashtbl.replace distinct (String.concat "\n" block) ();
      let corr = ref true and prop = ref true and why = ref "" in
      let note s = if !why = "" then why := s in
      let msgs = List.fold_left (fun acc l -> match split_ws l with "msgs" :: _ :: t -> Some (List.map bytes_of t) | _ -> acc) None block in
      let raw = List.fold_left (fun acc l -> match split_ws l with ["bytes"; h] -> Some (bytes_of h) | ["bytes"] -> Some [] | _ -> acc) None block in
      let benc = List.fold_left (fun acc l -> match split_ws l with ["benc"; h] -> Some (bytes_of h) | _ -> acc) None block in
      let bdec = List.fold_left (fun acc l -> match split_ws l with "bdec" :: _ :: t -> Some (Some (List.map bytes_of t)) | "bdec_panic" :: _ -> Some None | _ -> acc) None block in
      (match bdec with
       | Some None -> prop := false; note "decode_message_batch panicked"
       | _ -> ());
      let input = (match msgs, benc, raw with
        | Some ms, Some be, _ ->
          if encode_batch ms <> be then (corr := false; note "model batch encoding differs");
          (match bdec with Some (Some out) -> if out <> ms then (prop := false; note "unbatch(batch(ms)) <> ms") | _ -> ());
          Some be
        | _, _, Some b -> Some b
        | _ -> None) in
      (match input with
       | Some b ->
         (match decode_batch b, bdec with
          | Val (ms, cap), Some (Some out) ->
            if ms <> out then (corr := false; note "model batch decoding differs");
            if int_of_n cap > List.length b / 8 then (corr := false; note "capacity bound")
          | Panic _, Some None -> ()
          | _ -> (corr := false; note "model/impl disagree on batch panic"))
       | None -> ());
      verdict start !corr !prop !why
    end
  done;
  Printf.printf "summary cases=%d corr_fail=%d prop_fail=%d nontrivial=%d frames=%d refused_too_large=%d chunks=%d multi_chunk_cases=%d raw_cases=%d oversize_prefix_cases=%d decoder_errors=%d batch_cases=%d kinds=%s\n"
    !cases !corr_fail !prop_fail (Hashtbl.length distinct) !frames_total !too_large !chunks_total !multi_chunk !raw_cases !oversize_prefix !dec_errs !batch_cases
    (String.concat "," (Hashtbl.fold (fun k v acc -> (k ^ ":" ^ string_of_int v) :: acc) kinds []))
