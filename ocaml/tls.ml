(* C15: judges traces of the `tls` net engine.
   prop (trace only): a publisher registration is acknowledged only when the server presents the
         trusted set's certificate and the client the trusted set's client certificate; that
         pairing is acknowledged (through the client library and through a raw peer).
   corr: the model (TlsRun.matrix: translated configuration + generator, symbolic PKI) gives the
         same answer for every pairing. *)
open Model
open Util

let run (path : String.t) =
  let lines = Array.of_list (read_lines path) in
  let n = Array.length lines in
  let i = ref 0 and cases = ref 0 and corr_fail = ref 0 and prop_fail = ref 0 and pairs = ref 0 in
  let outcomes = Hashtbl.create 17 in
  let distinct = Hashtbl.create 97 in
  while !i < n do
    let l = lines.(!i) in
    if String.length l >= 9 && String.sub l 0 9 = "case tls " then begin
      let start = !i in
      incr i; incr cases;
      let corr = ref true and prop = ref true and why = ref "" in
      let note s = if !why = "" then why := s in
      let seen = Hashtbl.create 17 and ended = ref false in
      while !i < n && not (String.length lines.(!i) >= 5 && String.sub lines.(!i) 0 5 = "case ") do
        (match split_ws lines.(!i) with
         | ["pair"; s; c; via; "->"; res] ->
           incr pairs;
           Hashtbl.replace seen (s, c, via) ();
           Hashtbl.replace distinct (s ^ c ^ via) ();
           let registered = (res = "registered") in
           let key = s ^ "-" ^ c ^ "-" ^ (if registered then "registered" else "refused") in
           Hashtbl.replace outcomes key (1 + try Hashtbl.find outcomes key with Not_found -> 0);
           let sid = (if s = "T" then SrvTrusted else SrvOtherCa) in
           let cid = (match c with "trusted" -> IdTrusted | "otherca" -> IdOtherCa | "selfsigned" -> IdSelfSigned | "servercert" -> IdServerCertAsClient | _ -> IdNone) in
           if matrix sid cid <> registered then (corr := false; note (Printf.sprintf "server %s / client %s via %s: implementation %s, model %s" s c via res (if matrix sid cid then "admits" else "refuses")));
           let should = (s = "T" && c = "trusted") in
           if registered && not should then (prop := false; note (Printf.sprintf "a client presenting '%s' registered a stream on the server presenting the %s certificate (via %s)" c (if s = "T" then "trusted" else "other-CA") via));
           if should && not registered then (prop := false; note (Printf.sprintf "the generated certificate set does not work for localhost (via %s): %s" via res))
         | ["pairt"; s; c; via; "other"; "->"; res] ->
           incr pairs;
           Hashtbl.replace seen (s, c ^ "/trust-other", via) ();
           Hashtbl.replace distinct (s ^ c ^ via ^ "other") ();
           let registered = (res = "registered") in
           let key = s ^ "-" ^ c ^ "-trustother-" ^ (if registered then "registered" else "refused") in
           Hashtbl.replace outcomes key (1 + try Hashtbl.find outcomes key with Not_found -> 0);
           let sid = (if s = "T" then SrvTrusted else SrvOtherCa) in
           if matrix_trust sid IdTrusted true <> registered then (corr := false; note (Printf.sprintf "server %s / client trusting the other CA via %s: implementation %s, model %s" s via res (if matrix_trust sid IdTrusted true then "admits" else "refuses")));
           (* the client was configured with the other CA: it may only talk to the server certified by that CA *)
           if registered && s = "T" then (prop := false; note (Printf.sprintf "a client configured with the other CA talked to the server certified by the trusted CA (via %s)" via));
           if (not registered) && s = "O" then (prop := false; note (Printf.sprintf "a client configured with the other CA refused the server certified by that CA (via %s): %s" via res))
         | ["pairb"; c; via; "->"; res] ->
           incr pairs;
           Hashtbl.replace seen ("B", c, via) ();
           Hashtbl.replace distinct ("B" ^ c ^ via) ();
           let registered = (res = "registered") in
           let key = "B-" ^ c ^ "-" ^ (if registered then "registered" else "refused") in
           Hashtbl.replace outcomes key (1 + try Hashtbl.find outcomes key with Not_found -> 0);
           let cid = (if c = "trusted" then IdTrusted else IdOtherCa) in
           if matrix_bundle cid <> registered then (corr := false; note (Printf.sprintf "bundle server / client %s via %s: implementation %s, model %s" c via res (if matrix_bundle cid then "admits" else "refuses")));
           if registered && c <> "trusted" then (prop := false; note (Printf.sprintf "a client certified by the other CA registered on a server started with the trusted CA (its --cert file was a bundle containing the other CA) via %s" via));
           if (not registered) && c = "trusted" then (prop := false; note (Printf.sprintf "the trusted client was refused by the bundle server via %s: %s" via res))
         | ["pairr"; round; via; "->"; res] ->
           incr pairs;
           Hashtbl.replace seen ("R" ^ round, "trusted", via) ();
           Hashtbl.replace distinct ("R" ^ via) ();
           let registered = (res = "registered") in
           let key = "R-trusted-" ^ (if registered then "registered" else "refused") in
           Hashtbl.replace outcomes key (1 + try Hashtbl.find outcomes key with Not_found -> 0);
           if matrix SrvTrusted IdTrusted <> registered then (corr := false; note (Printf.sprintf "set renewed in place (round %s) via %s: implementation %s, model %s" round via res (if matrix SrvTrusted IdTrusted then "admits" else "refuses")));
           if not registered then (prop := false; note (Printf.sprintf "the certificate set the generator wrote over an earlier set (round %s) does not work for localhost (via %s): %s" round via res))
         | "harness_error" :: _ -> prop := false; note lines.(!i)
         | ["end"] -> ended := true
         | _ -> ());
        incr i
      done;
      if not !ended || Hashtbl.length seen < 32 then (prop := false; note "the identity matrix was not completed");
      if not !corr then incr corr_fail;
      if not !prop then incr prop_fail;
      if not (!corr && !prop) then
        Printf.printf "case %d corr=%s prop=%s | line=%d | why: %s | %s\n" !cases
          (if !corr then "ok" else "DIFF") (if !prop then "ok" else "FAIL") (start + 1) !why lines.(start)
    end else incr i
  done;
  Printf.printf "summary cases=%d corr_fail=%d prop_fail=%d nontrivial=%d pairings=%d outcomes=%s\n"
    !cases !corr_fail !prop_fail (Hashtbl.length distinct) !pairs
    (String.concat "," (Hashtbl.fold (fun k v acc -> (k ^ ":" ^ string_of_int v) :: acc) outcomes []))
