(* C02 / C08 / C09 / C10 / C11 / C16 (req/rep router): replays implementation traces of the `rr`
   engine through the model's acceptor (ReqRep.rstep) and evaluates the property predicates. *)
open Model
open Util

let intern_tbl : (String.t, int) Hashtbl.t = Hashtbl.create 97
let intern (s : String.t) : n =
  match Hashtbl.find_opt intern_tbl s with
  | Some i -> n_of_int i
  | None -> let i = Hashtbl.length intern_tbl + 1 in Hashtbl.add intern_tbl s i; n_of_int i

let is_digits s = s <> "" && String.for_all (fun c -> c >= '0' && c <= '9') s

let frame_of (s : String.t) : frame0 =
  match String.split_on_char ':' s with
  | "m" :: cid :: hd :: body :: rest ->
    let m_cid =
      if cid = "-" then None
      else if String.length cid > 0 && cid.[0] = 'x' then Some (CJunk (intern cid))
      else if is_digits cid then Some (CKey (n_of_string cid))
      else if String.length cid > 1 && cid.[0] = '+' && is_digits (String.sub cid 1 (String.length cid - 1))
      then Some (CKey (n_of_string (String.sub cid 1 (String.length cid - 1))))
      else Some (CJunk (intern cid)) in
    let m_others = if hd = "-" then [] else
      List.map (fun kv -> match String.index_opt kv '=' with
        | Some i -> (intern (String.sub kv 0 i), intern (String.sub kv (i + 1) (String.length kv - i - 1)))
        | None -> (intern kv, N0)) (String.split_on_char ',' hd) in
    let m_body = intern body in
    let m_hnone = (match rest with "n" :: _ -> true | _ -> false) in
    FMsg { m_cid; m_others; m_body; m_hnone }
  | ["e"; code] -> FErr (n_of_string code)
  | ["o"; tag] -> FOther (n_of_string tag)
  | _ -> failwith ("frame: " ^ s)

let resp3_of = function "ok" -> ROk | "err" -> RErr | _ -> RPending

let event_of (l : String.t) : rev0 option =
  match split_ws l with
  | ["pb"] -> Some VBegin
  | ["pe"; "pending"] -> Some (VEnd false)
  | ["pe"; "ready"] -> Some (VEnd true)
  | ["q"; "client"; id; w] -> Some (VQueue (QClient (n_of_string id), w = "1"))
  | ["q"; "server"; id; w] -> Some (VQueue (QServer (n_of_string id), w = "1"))
  | ["c"; w] -> Some (VClose (w = "1"))
  | ["f"; "k"; id; w] -> Some (VFire (SSink (n_of_string id), w = "1"))
  | ["f"; "s"; id; w] -> Some (VFire (SStream (n_of_string id), w = "1"))
  | ["k"; id; "ready"; r] -> Some (VSink (n_of_string id, OReady, resp3_of r))
  | ["k"; id; "flush"; r] -> Some (VSink (n_of_string id, OFlush, resp3_of r))
  | ["k"; id; "close"; r] -> Some (VSink (n_of_string id, OClose, resp3_of r))
  | ["k"; id; "send"; f; r] -> Some (VSink (n_of_string id, OSend (frame_of f), resp3_of r))
  | ["s"; id; "item"; f] -> Some (VStream (n_of_string id, FItem (frame_of f)))
  | ["s"; id; "err"] -> Some (VStream (n_of_string id, FErrR))
  | ["s"; id; "end"] -> Some (VStream (n_of_string id, FEnd))
  | ["s"; id; "pending"] -> Some (VStream (n_of_string id, FPending))
  | _ -> None

let pc_name (c : rpc) : String.t =
  match c with
  | RIdle -> "Idle" | RTop -> "Top" | RReqReady -> "ReqReady" | RReqSend -> "ReqSend" | RErrSlot -> "ErrSlot"
  | RErrReady _ -> "ErrReady" | RErrSend _ -> "ErrSend" | RErrClose _ -> "ErrClose" | RHandle -> "Handle"
  | RShutFlush _ -> "ShutFlush" | RServerCheck -> "ServerCheck" | RServerPoll -> "ServerPoll"
  | RSrvEndFlushSrv -> "SrvEndFlushSrv" | RSrvEndFlushRouter _ -> "SrvEndFlushRouter" | RRepCheck -> "RepCheck"
  | RRepReady _ -> "RepReady" | RRepSend -> "RepSend" | RStreamsStart -> "StreamsStart" | RStreams _ -> "Streams"
  | RDoneFlushRouter _ -> "DoneFlushRouter" | RDoneFlushSrv -> "DoneFlushSrv" | RBothCheck -> "BothCheck"
  | RBothFlushRouter _ -> "BothFlushRouter" | RBothFlushSrv -> "BothFlushSrv" | RReturn _ -> "Return"
  | RDone -> "Done" | RPanic s -> "Panic:" ^ ocaml_string s

let run (path : String.t) =
  let lines = Array.of_list (read_lines path) in
  let n = Array.length lines in
  let i = ref 0 and cases = ref 0 and corr_fail = ref 0 and prop_fail = ref 0 in
  let events_total = ref 0 and polls = ref 0 and nontrivial = ref 0 in
  let rejected_repliers = ref 0 and replies_routed = ref 0 and replies_discarded = ref 0 and requests_sent = ref 0 in
  let finals = Hashtbl.create 7 in
  while !i < n do
    let l = lines.(!i) in
    if String.length l >= 8 && String.sub l 0 8 = "case rr " then begin
      let start = !i in
      incr i; incr cases;
      Hashtbl.reset intern_tbl;
      let evs = ref [] and raw = ref [] in
      let special = ref None and late = ref None in
      while !i < n && not (String.length lines.(!i) >= 5 && String.sub lines.(!i) 0 5 = "case ") do
        let l = lines.(!i) in
        (match event_of l with
         | Some e -> evs := e :: !evs; raw := l :: !raw
         | None ->
           (match split_ws l with
            | "pe" :: ("panic" | "spin") :: _ -> if !special = None then special := Some l
            | ["late"; id] -> late := Some (n_of_string id)
            | _ -> ()));
        incr i
      done;
      let evs = List.rev !evs and raw = Array.of_list (List.rev !raw) in
      let header = split_ws lines.(start) in
      let fin = List.fold_left (fun acc t -> if String.length t > 6 && String.sub t 0 6 = "final=" then String.sub t 6 (String.length t - 6) else acc) "none" header in
      events_total := !events_total + List.length evs;
      polls := !polls + List.length (List.filter (fun e -> e = VBegin) evs);
      let (cnt, st) = rrun_count rinit evs O in
      let cnt = int_of_nat cnt in
      let st = (match rsettled st with Some s -> s | None -> st) in
      let accepted = (cnt = List.length evs) in
      let corr = accepted && not (rpanicked st) && !special = None in
      let viol = ref [] in
      let add v = if not (List.mem v !viol) then viol := v :: !viol in
      (match !special with
       | Some l -> (match split_ws l with _ :: "spin" :: _ -> add "c09" | _ -> (add "c08"; add "c11"))
       | None -> ());
      let why = ref [] in
      if not (c02_state_ok st) then (add "c02"; add "c08"; why := "c02_state" :: !why);
      if not (c10_state_ok st) then (add "c10"; why := "c10_state" :: !why);
      if not (obs_c02_ok evs) then (add "c02"; add "c08"; why := "obs_c02" :: !why);
      if not (obs_c02_no_pull_while_request_waits evs) then (add "c02"; add "c09"; why := "next_request_pulled_while_one_waits_for_a_pending_replier_sink" :: !why);
      if not (obs_replier_not_polled_after_end evs) then (add "c10"; add "c09"; why := "replier_whose_stream_ended_is_still_bound_and_polled" :: !why);
      if not (obs_requestor_not_polled_after_end evs) then (add "c09"; add "c02"; why := "requestor_stream_polled_after_its_end" :: !why);
      if not (obs_rr_no_pull_after_close evs) then (add "c16"; add "c09"; why := "streams_asked_after_the_channel_closed" :: !why);
      if not (obs_c10_ok evs) then (add "c10"; why := "obs_c10" :: !why);
      if not (obs_c10_rebind_justified evs) then (add "c10"; why := "c10_rebind_while_bound_replier_alive" :: !why);
      if not (obs_rr_c09_bounded_ok evs) then (add "c09"; why := "bounded" :: !why);
      if not (obs_rr_repoll_ok evs) then (add "c09"; add "c11"; why := "parked_without_repolling_a_ready_stream" :: !why);
      if not (obs_rr_flushed_at_completion evs) then (add "c16"; why := "unflushed_at_completion" :: !why);
      let drained = (fin = "quiesce" || fin = "close") && !special = None in
      if drained then begin
        (* once the channel is closed the router only flushes and stops: a reply still buffered for a
           slow requestor is not part of what shutdown promises (C16 speaks of published messages) *)
        let was_closed = List.exists (function VClose _ -> true | _ -> false) evs in
        (* a peer failed somewhere in this history: what is left undone afterwards is also harm done to the others (C08) *)
        let had_failures = List.exists (function VSink (_, _, RErr) -> true | VStream (_, FErrR) -> true | _ -> false) evs in
        let add v = (add v; if had_failures && (v = "c02" || v = "c10") then add "c08") in
        if fin = "quiesce" && not was_closed && not (obs_replies_delivered evs) then (add "c02"; add "c09"; why := "replies_delivered" :: !why);
        if not was_closed && not (obs_c10_final_ok evs) then (add "c10"; add "c09"; why := "c10_final" :: !why);
        if not was_closed && not (obs_c11_replier_answered evs) then (add "c11"; why := "replier_registration_taken_and_then_neither_served_nor_told" :: !why);
        if fin = "quiesce" && not was_closed && not (obs_requests_flushed evs) then (add "c02"; add "c09"; why := "requests_flushed" :: !why);
        if fin = "quiesce" && not was_closed && not (obs_rstreams_polled_to_pending evs) then (add "c09"; add "c11"; add "c02"; why := "stream_left_ready" :: !why);
        if fin = "quiesce" && not was_closed && not (obs_no_request_stranded evs) then (add "c02"; add "c08"; add "c11"; why := "request_stranded" :: !why);
        if fin = "close" && not (rcompleted evs) then (add "c16"; add "c09"; why := "not_completed" :: !why);
        (* after every stream (the bound replier's too) has ended and the router went quiet, the next replier to register is bound *)
        (match !late with
         | Some l when fin = "quiesce" && not was_closed ->
           if List.exists (function VSink (l', OSend (FErr _), _) -> l' = l | _ -> false) evs
           then (add "c10"; add "c09"; why := "replier_registering_after_the_bound_one_left_was_refused" :: !why)
         | _ -> ())
      end;
      let g = st.rgh in
      rejected_repliers := !rejected_repliers + List.length g.h_rejected;
      replies_routed := !replies_routed + List.length g.h_reps_routed;
      replies_discarded := !replies_discarded + List.length g.h_reps_discarded;
      requests_sent := !requests_sent + List.length g.h_reqs_sent;
      let prop = (!viol = []) in
      if List.exists (function VSink (_, _, RPending) | VSink (_, _, RErr) -> true | _ -> false) evs then incr nontrivial;
      Hashtbl.replace finals fin (1 + try Hashtbl.find finals fin with Not_found -> 0);
      if not corr then incr corr_fail;
      if not prop then incr prop_fail;
      if not (corr && prop) then
        Printf.printf "case %d corr=%s prop=%s | line=%d | viol=%s | why: %s | %s\n" !cases
          (if corr then "ok" else "DIFF") (if prop then "ok" else "FAIL") (start + 1)
          (String.concat "," !viol)
          (match !special with Some s -> s | None ->
             if cnt < List.length evs then Printf.sprintf "model rejects event %d `%s` in control state %s" cnt raw.(cnt) (pc_name st.rctl)
             else if rpanicked st then "model panics: " ^ pc_name st.rctl else "predicate " ^ String.concat "+" !why)
          lines.(start)
    end else incr i
  done;
  Printf.printf "summary cases=%d corr_fail=%d prop_fail=%d nontrivial=%d events=%d polls=%d rejected_repliers=%d replies_routed=%d replies_discarded=%d requests_sent=%d finals=%s\n"
    !cases !corr_fail !prop_fail !nontrivial !events_total !polls !rejected_repliers !replies_routed !replies_discarded !requests_sent
    (String.concat "," (Hashtbl.fold (fun k v acc -> (k ^ ":" ^ string_of_int v) :: acc) finals []))
