(* C04: judges traces of the `c04` net engine (real Requestors vs a scripted raw replier).
   prop: every Ok carries the reply made for exactly that request; quick / out-of-order / doubled
         replies are delivered; late, missing and foreign-id replies end in a timeout error that
         arrives in time; no late reply surfaces in the second round.
   corr: the model (ClientReqRep.v), fed the calls of each requestor stream in trace order and the
         replies the script produces, finishes every call the same way. *)
open Model
open Util

let run (path : String.t) =
  let lines = Array.of_list (read_lines path) in
  let n = Array.length lines in
  let i = ref 0 and cases = ref 0 and corr_fail = ref 0 and prop_fail = ref 0 in
  let calls_total = ref 0 and timeouts = ref 0 and oks = ref 0 in
  let actions = Hashtbl.create 17 in
  let distinct = Hashtbl.create 97 in
  while !i < n do
    let l = lines.(!i) in
    if String.length l >= 9 && String.sub l 0 9 = "case c04 " then begin
      let start = !i in
      incr i; incr cases;
      let timeout_ms = (match List.filter (fun t -> String.length t > 11 && String.sub t 0 11 = "timeout_ms=") (split_ws l) with
        | t :: _ -> int_of_string (String.sub t 11 (String.length t - 11)) | [] -> 400) in
      let calls = ref [] and herr = ref None in
      while !i < n && not (String.length lines.(!i) >= 5 && String.sub lines.(!i) 0 5 = "case ") do
        (match split_ws lines.(!i) with
         | ["call"; s; k; action; payload; "->"; res; ms] -> calls := (int_of_string s, int_of_string k, action, payload, res, int_of_string ms) :: !calls
         | "harness_error" :: _ -> herr := Some lines.(!i)
         | _ -> ());
        incr i
      done;
      let calls = List.rev !calls in
      calls_total := !calls_total + List.length calls;
      let corr = ref true and prop = ref true and why = ref "" in
      let note s = if !why = "" then why := s in
      (match !herr with Some e -> prop := false; note e | None -> ());
      if calls = [] then (prop := false; note "no calls recorded");
      (* model: one requestor per stream; ids in trace order; replies as scripted *)
      let streams = List.sort_uniq compare (List.map (fun (s, _, _, _, _, _) -> s) calls) in
      List.iter (fun st ->
        let mine = List.filter (fun (s, _, _, _, _, _) -> s = st) calls in
        let evs = ref [] and idx = ref 0 in
        List.iter (fun (_, k, action, payload, res, ms) ->
          (* a reply scripted to come after the timeout can still win the race when the timer is served
             late (a loaded machine): the call then returns its OWN reply, which is what the property asks *)
          let action = if action = "late" && res = "ok:re:" ^ payload && ms >= timeout_ms then "quick" else action in
          let c = n_of_int (k + 1) and id = n_of_int !idx in
          incr idx;
          evs := CCall c :: !evs;
          (match action with
           | "toobig" -> decr idx; evs := List.tl !evs      (* never sent: no id taken, no call in the model *)
           | "garbage" -> evs := CReply (Some id, c) :: !evs   (* answered (the id is used up), but the reply cannot be decoded: the call's own outcome is not compared with the model *)
           | "quick" | "hold" | "slow" -> evs := CReply (Some id, c) :: !evs
           | "twice" -> evs := CReply (Some id, c) :: CReply (Some id, c) :: !evs
           | "late" -> evs := CReply (Some id, c) :: CTimeout c :: !evs
           | "foreign" -> evs := CTimeout c :: CReply (Some (n_of_int 4000000), c) :: !evs
           | _ -> evs := CTimeout c :: !evs)) mine;
        let st_final = crun (List.rev !evs) in
        List.iter (fun (_, k, action, _, res, _) ->
          if action <> "toobig" && action <> "garbage" then
          let c = n_of_int (k + 1) in
          let model_ok = List.exists (fun (c', r) -> c' = c && (match r with ResOk (p, _) -> p = c | ResTimeout -> false)) st_final.c_done in
          let model_to = List.exists (fun (c', r) -> c' = c && r = ResTimeout) st_final.c_done in
          let impl_ok = String.length res > 3 && String.sub res 0 3 = "ok:" in
          if (impl_ok && not model_ok) || (res = "timeout" && not model_to) then (corr := false; note "model finishes a call differently")) mine) streams;
      List.iter (fun (_, _, action, payload, res, ms) ->
        Hashtbl.replace actions action (1 + try Hashtbl.find actions action with Not_found -> 0);
        let action = if action = "late" && res = "ok:re:" ^ payload && ms >= timeout_ms then "quick" else action in
        Hashtbl.replace distinct (action ^ payload) ();
        let expect_ok = (action = "quick" || action = "hold" || action = "twice" || action = "slow") in
        if action = "garbage" then begin
          (* a reply that cannot be decoded ends that call in an error: not in a value, not in a timeout *)
          if not (String.length res > 4 && String.sub res 0 4 = "err:") then (prop := false; note ("a call whose reply cannot be decoded returned " ^ res))
        end else
        if action = "toobig" then begin
          (* a request too large to be sent fails locally: an error, never a reply, never a timeout *)
          if not (String.length res > 4 && String.sub res 0 4 = "err:") then (prop := false; note ("a request too large to be sent returned " ^ res))
        end else
        if String.length res > 3 && String.sub res 0 3 = "ok:" then begin
          incr oks;
          if res <> "ok:re:" ^ payload then (prop := false; note ("a call returned the reply to another request: " ^ payload ^ " got " ^ res));
          if not expect_ok then (prop := false; note ("a call whose reply was " ^ action ^ " returned Ok"))
        end else if res = "timeout" then begin
          incr timeouts;
          if expect_ok then (prop := false; note ("a call with a " ^ action ^ " reply timed out: " ^ payload));
          if ms < timeout_ms - 20 || ms > timeout_ms + 400 then (prop := false; note (Printf.sprintf "timeout reported after %d ms (configured %d)" ms timeout_ms))
        end else (prop := false; note ("unexpected error " ^ res))) calls;
      if not !corr then incr corr_fail;
      if not !prop then incr prop_fail;
      if not (!corr && !prop) then
        Printf.printf "case %d corr=%s prop=%s | line=%d | why: %s | %s\n" !cases
          (if !corr then "ok" else "DIFF") (if !prop then "ok" else "FAIL") (start + 1) !why lines.(start)
    end else incr i
  done;
  Printf.printf "summary cases=%d corr_fail=%d prop_fail=%d nontrivial=%d calls=%d ok_results=%d timeout_results=%d actions=%s\n"
    !cases !corr_fail !prop_fail (Hashtbl.length distinct) !calls_total !oks !timeouts
    (String.concat "," (Hashtbl.fold (fun k v acc -> (k ^ ":" ^ string_of_int v) :: acc) actions []))
