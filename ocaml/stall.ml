(* C17: judges traces of the `stall` net engine.
   prop (trace only): with topic A stalled and N registrations queued on it, a pub/sub round trip on
         topic B and a request/reply round trip on topic C complete within the deadline.
   corr: the model (translated handle_stream program over the lock/queue semantics of Server.v)
         predicts, for the same numbers of registrations before and after the stall, whether a
         registration on another topic completes. *)
open Model
open Util

let field l key =
  List.fold_left (fun acc t ->
    let k = key ^ "=" in
    if String.length t > String.length k && String.sub t 0 (String.length k) = k
    then String.sub t (String.length k) (String.length t - String.length k) else acc) "" (split_ws l)

let run (path : String.t) =
  let lines = Array.of_list (read_lines path) in
  let n = Array.length lines in
  let i = ref 0 and cases = ref 0 and corr_fail = ref 0 and prop_fail = ref 0 and stalled_cases = ref 0 in
  let ns = Hashtbl.create 17 and orders = Hashtbl.create 7 in
  let distinct = Hashtbl.create 97 in
  while !i < n do
    let l = lines.(!i) in
    if String.length l >= 11 && String.sub l 0 11 = "case stall " then begin
      let start = !i in
      incr i; incr cases;
      let nreg = int_of_string (field l "n") and order = field l "order" in
      Hashtbl.replace ns (string_of_int nreg) (1 + try Hashtbl.find ns (string_of_int nreg) with Not_found -> 0);
      Hashtbl.replace orders order (1 + try Hashtbl.find orders order with Not_found -> 0);
      Hashtbl.replace distinct (string_of_int nreg ^ order) ();
      let corr = ref true and prop = ref true and why = ref "" in
      let note s = if !why = "" then why := s in
      let stalled = ref false and probes = ref [] and ended = ref false in
      while !i < n && not (String.length lines.(!i) >= 5 && String.sub lines.(!i) 0 5 = "case ") do
        (match split_ws lines.(!i) with
         | "stalled" :: "yes" :: _ -> stalled := true
         | ["probe"; pat; "->"; res] -> probes := (pat, res) :: !probes
         | "harness_error" :: _ -> prop := false; note lines.(!i)
         | ["end"] -> ended := true
         | _ -> ());
        incr i
      done;
      if !stalled then incr stalled_cases;
      if not !ended then (prop := false; note "case did not finish");
      let all_ok = List.length !probes >= 2 && List.for_all (fun (_, r) -> r = "ok") !probes in
      List.iter (fun (pat, r) -> if r <> "ok" then (prop := false; note (Printf.sprintf "with %d registrations queued on the stalled topic (%s the stall) a %s round trip on another topic failed: %s" nreg order pat r))) !probes;
      let before = (match order with "before" -> nreg | "half" -> nreg / 2 | _ -> 0) in
      let predicted = stall_predict (n_of_int before) (n_of_int (nreg - before)) in
      (* the model speaks about a stalled router only *)
      if !stalled && !ended && predicted <> all_ok then (corr := false; note (Printf.sprintf "model predicts %s for a registration on another topic, implementation %s" (if predicted then "completion" else "blocking") (if all_ok then "completed" else "did not")));
      if not !corr then incr corr_fail;
      if not !prop then incr prop_fail;
      if not (!corr && !prop) then
        Printf.printf "case %d corr=%s prop=%s | line=%d | why: %s | %s\n" !cases
          (if !corr then "ok" else "DIFF") (if !prop then "ok" else "FAIL") (start + 1) !why lines.(start)
    end else incr i
  done;
  let show h = String.concat "," (Hashtbl.fold (fun k v acc -> (k ^ ":" ^ string_of_int v) :: acc) h []) in
  Printf.printf "summary cases=%d corr_fail=%d prop_fail=%d nontrivial=%d stalled=%d registrations=%s orders=%s\n"
    !cases !corr_fail !prop_fail (Hashtbl.length distinct) !stalled_cases (show ns) (show orders)
