(* C03: judges traces of the `c03` net engine (real Publisher -> real server -> real Subscriber).
   prop: the subscriber yielded exactly the items sent, in order, each once, and finish() succeeded.
   corr: (configurations without compression) the model's subscriber, run on the frames the raw
         subscriber recorded, yields the same items. *)
open Model
open Util

let bytes_of (h : String.t) : n list = List.map n_of_int (bytes_of_hex h)

let run (path : String.t) =
  let lines = Array.of_list (read_lines path) in
  let n = Array.length lines in
  let i = ref 0 and cases = ref 0 and corr_fail = ref 0 and prop_fail = ref 0 in
  let distinct = Hashtbl.create 97 in
  let comps = Hashtbl.create 17 and codecs = Hashtbl.create 7 in
  let batched = ref 0 and items_total = ref 0 and model_checked = ref 0 and harness_errors = ref 0 in
  while !i < n do
    let l = lines.(!i) in
    if String.length l >= 9 && String.sub l 0 9 = "case c03 " then begin
      let start = !i in
      incr i; incr cases;
      let cfg = ref "" and sent = ref None and got = ref None and fin = ref "" and raws = ref [] and herr = ref None in
      while !i < n && not (String.length lines.(!i) >= 5 && String.sub lines.(!i) 0 5 = "case ") do
        let l = lines.(!i) in
        (match split_ws l with
         | "cfg" :: _ -> cfg := l
         | "sent" :: t -> sent := Some t
         | "got" :: t -> got := Some t
         | ["fin"; r] -> fin := r
         | ["raw"; "M"; h] -> raws := WMsg (bytes_of h) :: !raws
         | ["raw"; "B"; h] -> raws := WBatch (bytes_of h) :: !raws
         | ["raw"; "O"] -> raws := WOther :: !raws
         | "harness_error" :: _ -> herr := Some l
         | _ -> ());
        incr i
      done;
      let field k = List.fold_left (fun acc t -> match String.index_opt t '=' with
        | Some j when String.sub t 0 j = k -> String.sub t (j + 1) (String.length t - j - 1) | _ -> acc) "" (split_ws !cfg) in
      let comp = field "comp" and codec = field "codec" in
      Hashtbl.replace comps comp (1 + try Hashtbl.find comps comp with Not_found -> 0);
      Hashtbl.replace codecs codec (1 + try Hashtbl.find codecs codec with Not_found -> 0);
      if field "batch" <> "-" then incr batched;
      Hashtbl.replace distinct !cfg ();
      let corr = ref true and prop = ref true and why = ref "" in
      (match !herr with
       | Some e -> incr harness_errors; prop := false; why := e
       | None ->
         (match !sent, !got with
          | Some s, Some g ->
            items_total := !items_total + List.length s;
            if s <> g then (prop := false; why := Printf.sprintf "sent %d item(s), subscriber yielded %d (or different order/values)" (List.length s) (List.length g));
            if !fin <> "ok" then (prop := false; if !why = "" then why := "send/finish reported an error");
            if comp = "none" then begin
              incr model_checked;
              let frames = List.rev !raws in
              (match subscribe (fun b -> Some b) (fun b -> Some b) frames with
               | SubItems items ->
                 if List.map (fun b -> hex_of_ints (List.map int_of_n b)) items <> s then (corr := false; if !why = "" then why := "model's subscriber on the recorded frames yields other items")
               | _ -> corr := false; if !why = "" then why := "model's subscriber fails on the recorded frames")
            end
          | _ -> prop := false; why := "incomplete case"));
      if not !corr then incr corr_fail;
      if not !prop then incr prop_fail;
      if not (!corr && !prop) then
        Printf.printf "case %d corr=%s prop=%s | line=%d | why: %s | %s\n" !cases
          (if !corr then "ok" else "DIFF") (if !prop then "ok" else "FAIL") (start + 1) !why !cfg
    end else incr i
  done;
  let show h = String.concat "," (Hashtbl.fold (fun k v acc -> (k ^ ":" ^ string_of_int v) :: acc) h []) in
  Printf.printf "summary cases=%d corr_fail=%d prop_fail=%d nontrivial=%d batched_cases=%d items=%d model_checked=%d harness_errors=%d comps=%s codecs=%s\n"
    !cases !corr_fail !prop_fail (Hashtbl.length distinct) !batched !items_total !model_checked !harness_errors (show comps) (show codecs)
