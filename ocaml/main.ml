let () =
  match Array.to_list Sys.argv with
  | _ :: "c13" :: path :: rest -> C13.run path (not (List.mem "release" rest)) (List.mem "count" rest)
  | _ :: "c03" :: path :: _ -> C03.run path
  | _ :: "c14" :: path :: _ -> C14.run path
  | _ :: "c04" :: path :: _ -> C04.run path
  | _ :: "c12" :: path :: _ -> C12.run path
  | _ :: "srv" :: path :: only :: _ -> Srv.run path only
  | _ :: "srv" :: path :: _ -> Srv.run path ""
  | _ :: "stall" :: path :: _ -> Stall.run path
  | _ :: "tls" :: path :: _ -> Tls.run path
  | _ :: "shut" :: path :: _ -> Shut.run path
  | _ :: "c05" :: path :: _ -> C05.run path
  | _ :: "c06" :: path :: _ -> C06.run path
  | _ :: "ps" :: path :: _ -> Ps.run path
  | _ :: "rr" :: path :: _ -> Rr.run path
  | _ :: "c07" :: path :: _ -> C07.run path
  | _ -> prerr_endline "usage: driver <engine> <trace> [opts]"; exit 2
