(* C07: judges implementation results of TopicName::try_from / create / Display / is_valid.
   corr: the model (TopicName.v with the regenerated regexes) gives the same result.
   prop: the result is what the grammar (TopicSpec.name_ok) demands:
     try_from s = Ok(ns,tp)  iff  s = "/"ns"/"tp and name_ok ns tp; otherwise an error, never a panic;
     printed form = input; is_valid = true on accepted names; create ns tp = Ok iff name_ok. *)
open Model
open Util

let cps_of (s : String.t) : n list =
  if s = "-" then [] else List.map n_of_string (String.split_on_char ',' s)

let show_cps (l : n list) = if l = [] then "-" else String.concat "," (List.map string_of_n l)

(* independent of the model: find the (unique) split of s as /ns/tp *)
let split_name (s : n list) : (n list * n list) option =
  let slash = n_of_int 47 in
  match s with
  | c :: rest when c = slash ->
    let rec go acc = function
      | [] -> None
      | x :: r when x = slash -> Some (List.rev acc, r)
      | x :: r -> go (x :: acc) r in
    go [] rest
  | _ -> None

let run (path : String.t) =
  let lines = Array.of_list (read_lines path) in
  let n = Array.length lines in
  let i = ref 0 and cases = ref 0 and corr_fail = ref 0 and prop_fail = ref 0 in
  let accepted = ref 0 and reserved = ref 0 and parse_err = ref 0 and nonascii = ref 0 in
  let distinct = Hashtbl.create 997 in
  let report kind l r corr prop model_s =
    if not corr then incr corr_fail;
    if not prop then incr prop_fail;
    if not (corr && prop) then
      Printf.printf "case %d corr=%s prop=%s | %s | impl: %s | model: %s\n" !cases
        (if corr then "ok" else "DIFF") (if prop then "ok" else "FAIL") l r model_s in
  while !i + 1 < n do
    let l = lines.(!i) and r = lines.(!i + 1) in
    i := !i + 2;
    match split_ws l, split_ws r with
    | ["tf"; s], ("r" :: res) ->
      incr cases;
      let s = cps_of s in
      if List.exists (fun c -> N.leb (n_of_int 128) c) s then incr nonascii;
      Hashtbl.replace distinct l ();
      let model = try_from s in
      let model_s = (match model with
        | TnOk (ns, tp) -> "ok " ^ show_cps ns ^ " " ^ show_cps tp
        | TnErr ParseTopicNameError -> "err parse"
        | TnErr ReservedNamespaceError -> "err reserved"
        | TnPanic m -> "panic " ^ ocaml_string m) in
      let expect_ok = (match split_name s with Some (ns, tp) when name_ok ns tp -> Some (ns, tp) | _ -> None) in
      (match res with
       | ["ok"; ns; tp; disp; valid] ->
         incr accepted;
         let ns = cps_of ns and tp = cps_of tp and disp = cps_of disp in
         let corr = (model = TnOk (ns, tp)) && print (ns, tp) = disp && (is_valid (ns, tp) = (valid = "1")) in
         let prop = (expect_ok = Some (ns, tp)) && disp = s && valid = "1" in
         report "tf" l r corr prop model_s
       | ["err"; k] ->
         if k = "reserved" then incr reserved else incr parse_err;
         let corr = (match model, k with
           | TnErr ParseTopicNameError, "parse" -> true
           | TnErr ReservedNamespaceError, "reserved" -> true
           | _ -> false) in
         let prop = (expect_ok = None) in
         report "tf" l r corr prop model_s
       | "panic" :: _ ->
         let corr = (match model with TnPanic _ -> true | _ -> false) in
         report "tf" l r corr false model_s
       | _ -> failwith ("bad result line " ^ r))
    | ["cr"; ns; tp], ("r" :: res) ->
      incr cases;
      Hashtbl.replace distinct l ();
      let ns = cps_of ns and tp = cps_of tp in
      let model = create ns tp in
      let model_s = (match model with TnOk _ -> "ok" | TnErr _ -> "err" | TnPanic _ -> "panic") in
      (match res with
       | ["ok"; disp] ->
         incr accepted;
         let corr = (model = TnOk (ns, tp)) && print (ns, tp) = cps_of disp in
         let prop = name_ok ns tp && cps_of disp = (n_of_int 47 :: ns) @ (n_of_int 47 :: tp) in
         report "cr" l r corr prop model_s
       | ["err"] ->
         incr parse_err;
         report "cr" l r (match model with TnErr _ -> true | _ -> false) (not (name_ok ns tp)) model_s
       | "panic" :: _ -> report "cr" l r false false model_s
       | _ -> failwith ("bad result line " ^ r))
    | _ -> ()
  done;
  Printf.printf "summary cases=%d corr_fail=%d prop_fail=%d nontrivial=%d accepted=%d reserved=%d parse_err=%d nonascii=%d\n"
    !cases !corr_fail !prop_fail (Hashtbl.length distinct) !accepted !reserved !parse_err !nonascii
