(* C01 / C08 / C09 / C16 (pub/sub router): replays implementation traces of the `ps` engine
   through the model's acceptor (PubSub.step) and evaluates the property predicates. *)
open Model
open Util

let resp3_of = function "ok" -> ROk | "err" -> RErr | _ -> RPending

(* one trace line -> event (None: line carries no event for the model) *)
let event_of (l : String.t) : ev option =
  match split_ws l with
  | ["pb"] -> Some EBegin
  | ["pe"; "pending"] -> Some (EEnd false)
  | ["pe"; "ready"] -> Some (EEnd true)
  | ["q"; "stream"; id; w] -> Some (EQueue (QStream (n_of_string id), w = "1"))
  | ["q"; "sink"; id; w] -> Some (EQueue (QSink (n_of_string id), w = "1"))
  | ["c"; w] -> Some (EClose (w = "1"))
  | ["f"; "k"; id; w] -> Some (EFire (SSink (n_of_string id), w = "1"))
  | ["f"; "s"; id; w] -> Some (EFire (SStream (n_of_string id), w = "1"))
  | ["k"; id; "ready"; r] -> Some (ESinkReady (n_of_string id, resp3_of r))
  | ["k"; id; "flush"; r] -> Some (ESinkFlush (n_of_string id, resp3_of r))
  | ["k"; id; "send"; x; r] -> Some (ESinkSend (n_of_string id, n_of_string x, r = "ok"))
  | ["s"; id; "item"; x] -> Some (EStream (n_of_string id, SItem (n_of_string x)))
  | ["s"; id; "err"] -> Some (EStream (n_of_string id, SErr))
  | ["s"; id; "end"] -> Some (EStream (n_of_string id, SEnd))
  | ["s"; id; "pending"] -> Some (EStream (n_of_string id, SPending))
  | _ -> None

let pc_name = function
  | PIdle -> "Idle" | PTop -> "Top" | PReady _ -> "Ready" | PSend _ -> "Send" | PHandle -> "Handle"
  | PStreamsStart -> "StreamsStart" | PStreams _ -> "Streams" | PFlush _ -> "Flush" | PReturn _ -> "Return"
  | PDone -> "Done" | PPanic s -> "Panic:" ^ ocaml_string s

let run (path : String.t) =
  let lines = Array.of_list (read_lines path) in
  let n = Array.length lines in
  let i = ref 0 and cases = ref 0 and corr_fail = ref 0 and prop_fail = ref 0 in
  let events_total = ref 0 and polls = ref 0 and nontrivial = ref 0 in
  let finals = Hashtbl.create 7 in
  while !i < n do
    let l = lines.(!i) in
    if String.length l >= 8 && String.sub l 0 8 = "case ps " then begin
      let start = !i in
      incr i; incr cases;
      let evs = ref [] and raw = ref [] in
      let special = ref None in
      while !i < n && not (String.length lines.(!i) >= 5 && String.sub lines.(!i) 0 5 = "case ") do
        let l = lines.(!i) in
        (match event_of l with
         | Some e -> evs := e :: !evs; raw := l :: !raw
         | None ->
           (match split_ws l with
            | "pe" :: ("panic" | "spin") :: _ -> if !special = None then special := Some l
            | _ -> ()));
        incr i
      done;
      let evs = List.rev !evs and raw = Array.of_list (List.rev !raw) in
      let header = split_ws lines.(start) in
      let fin = List.fold_left (fun acc t -> if String.length t > 6 && String.sub t 0 6 = "final=" then String.sub t 6 (String.length t - 6) else acc) "none" header in
      events_total := !events_total + List.length evs;
      polls := !polls + List.length (List.filter (fun e -> e = EBegin) evs);
      let (cnt, st) = run_count init evs O in
      let cnt = int_of_nat cnt in
      let st = (match settled st with Some s -> s | None -> st) in
      let accepted = (cnt = List.length evs) in
      let corr = accepted && not (panicked st) && !special = None in
      let viol = ref [] in
      let add v = if not (List.mem v !viol) then viol := v :: !viol in
      (match !special with
       | Some l -> (match split_ws l with _ :: "spin" :: _ -> add "c09" | _ -> (add "c08"; add "c01"))
       | None -> ());
      (* on the state reached by the model over the accepted prefix *)
      if not (c01_state_ok st) then (add "c01"; add "c08");
      if not (live_ok st) then add "c08";
      if not (c16_state_ok st) then add "c16";
      (* on the raw implementation trace *)
      if not (obs_c01_ok evs) then (add "c01"; add "c08");
      if not (obs_c16_ok evs) then add "c16";
      if not (obs_c09_bounded_ok evs) then add "c09";
      if not (obs_no_poll_after_end evs) then (add "c09"; add "c01");
      if not (obs_no_pull_after_close evs) then (add "c16"; add "c09");
      (* a peer failed or left somewhere in this history (a sink answered Err, a publisher stream yielded an
         error or ended): what is left undone afterwards is also harm done to the others (C08) *)
      let had_failures = List.exists (function ESinkReady (_, RErr) | ESinkFlush (_, RErr) | ESinkSend (_, _, false)
                                             | EStream (_, SErr) | EStream (_, SEnd) -> true | _ -> false) evs in
      if not (obs_repoll_ok evs) then (add "c09"; add "c01"; if had_failures then add "c08");
      let drained = (fin = "quiesce" || fin = "close") && !special = None in
      if drained then begin
        (* wake-driven final phase: sinks ready, publishers idle or finished *)
        if not (obs_delivered_all evs && obs_all_adopted evs) then (add "c01"; add "c09"; if had_failures then add "c08");
        if accepted && not (delivered_all st) then (add "c01"; add "c09"; if had_failures then add "c08");
        if fin = "close" && not (completed evs) then (add "c16"; add "c09");
        let was_closed = List.exists (function EClose _ -> true | _ -> false) evs in
        if fin = "quiesce" && not was_closed && not (obs_streams_polled_to_pending evs) then (add "c09"; add "c01")
      end;
      let prop = (!viol = []) in
      if List.exists (function ESinkReady (_, RPending) | ESinkFlush (_, RPending) | ESinkReady (_, RErr) | ESinkSend (_, _, false) -> true | _ -> false) evs
      then incr nontrivial;
      Hashtbl.replace finals fin (1 + try Hashtbl.find finals fin with Not_found -> 0);
      if not corr then incr corr_fail;
      if not prop then incr prop_fail;
      if not (corr && prop) then
        Printf.printf "case %d corr=%s prop=%s | line=%d | viol=%s | why: %s | %s\n" !cases
          (if corr then "ok" else "DIFF") (if prop then "ok" else "FAIL") (start + 1)
          (String.concat "," !viol)
          (match !special with Some s -> s | None ->
             if cnt < List.length evs then Printf.sprintf "model rejects event %d `%s` in control state %s" cnt raw.(cnt) (pc_name st.ctl)
             else if panicked st then "model panics: " ^ pc_name st.ctl else "predicate")
          lines.(start)
    end else incr i
  done;
  Printf.printf "summary cases=%d corr_fail=%d prop_fail=%d nontrivial=%d events=%d polls=%d finals=%s\n"
    !cases !corr_fail !prop_fail !nontrivial !events_total !polls
    (String.concat "," (Hashtbl.fold (fun k v acc -> (k ^ ":" ^ string_of_int v) :: acc) finals []))
