(* Conversions between text and the extracted Coq datatypes; line utilities. *)
open Model

let n_ten = N.of_nat (S (S (S (S (S (S (S (S (S (S O))))))))))

let n_of_int (i : int) : n =
  let rec go i = if i = 0 then N0 else N.add (N.mul (go (i / 2)) (N.of_nat (S (S O)))) (if i mod 2 = 1 then N.of_nat (S O) else N0) in
  go i

let n_of_string (s : String.t) : n =
  let acc = ref N0 in
  String.iter (fun ch ->
    if ch < '0' || ch > '9' then failwith ("n_of_string: " ^ s);
    acc := N.add (N.mul !acc n_ten) (n_of_int (Char.code ch - 48))) s;
  !acc

let rec int_of_pos = function
  | XH -> 1
  | XO p -> 2 * int_of_pos p
  | XI p -> 2 * int_of_pos p + 1

let int_of_n = function N0 -> 0 | Npos p -> int_of_pos p

let string_of_n (x : n) : String.t =
  if x = N0 then "0" else begin
    let b = Buffer.create 32 in
    let rec go x acc = if x = N0 then acc else
      let d = int_of_n (N.modulo x n_ten) in
      go (N.div x n_ten) (Char.chr (48 + d) :: acc) in
    List.iter (Buffer.add_char b) (go x []);
    Buffer.contents b
  end

let rec nat_of_int i = if i <= 0 then O else S (nat_of_int (i - 1))
let rec int_of_nat = function O -> 0 | S k -> 1 + int_of_nat k

let char_of_ascii (Ascii (b0, b1, b2, b3, b4, b5, b6, b7)) =
  let v b k = if b then 1 lsl k else 0 in
  Char.chr (v b0 0 + v b1 1 + v b2 2 + v b3 3 + v b4 4 + v b5 5 + v b6 6 + v b7 7)

let rec ocaml_string (s : Model.string) : String.t =
  match s with
  | EmptyString -> ""
  | String (a, r) -> String.make 1 (char_of_ascii a) ^ ocaml_string r

let split_ws (s : String.t) : String.t list =
  List.filter (fun x -> x <> "") (String.split_on_char ' ' s)

let read_lines (path : String.t) : String.t list =
  let ic = open_in path in
  let rec go acc = match input_line ic with
    | l -> go (l :: acc)
    | exception End_of_file -> close_in ic; List.rev acc in
  go []

let bytes_of_hex (s : String.t) : int list =
  if s = "-" then [] else
  List.init (String.length s / 2) (fun i -> int_of_string ("0x" ^ String.sub s (2 * i) 2))

let hex_of_ints (l : int list) : String.t =
  if l = [] then "-" else String.concat "" (List.map (Printf.sprintf "%02x") l)
