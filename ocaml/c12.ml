(* C12: judges traces of the `c12` net engine.  prop: every scenario ends with `result ok`
   (streams of all four kinds work again after each of k > max_attempts successive outages; a
   replier whose topic is squatted reports too-many-retries instead of hanging). *)
open Util

let run (path : String.t) =
  let lines = Array.of_list (read_lines path) in
  let n = Array.length lines in
  let i = ref 0 and cases = ref 0 and prop_fail = ref 0 and outages = ref 0 in
  let kinds = Hashtbl.create 7 in
  let distinct = Hashtbl.create 97 in
  while !i < n do
    let l = lines.(!i) in
    if String.length l >= 9 && String.sub l 0 9 = "case c12 " then begin
      let start = !i in
      incr i; incr cases;
      let result = ref "missing" in
      while !i < n && not (String.length lines.(!i) >= 5 && String.sub lines.(!i) 0 5 = "case ") do
        (match split_ws lines.(!i) with
         | "result" :: r -> result := String.concat "_" r
         | "outage" :: _ -> incr outages
         | "harness_error" :: _ -> result := lines.(!i)
         | _ -> ());
        incr i
      done;
      let kind = List.fold_left (fun acc t -> if String.length t > 5 && String.sub t 0 5 = "kind=" then String.sub t 5 (String.length t - 5) else acc) "?" (split_ws l) in
      Hashtbl.replace kinds kind (1 + try Hashtbl.find kinds kind with Not_found -> 0);
      Hashtbl.replace distinct l ();
      if !result <> "ok" then begin
        incr prop_fail;
        Printf.printf "case %d corr=ok prop=FAIL | line=%d | why: %s | %s\n" !cases (start + 1) !result l
      end
    end else incr i
  done;
  Printf.printf "summary cases=%d corr_fail=0 prop_fail=%d nontrivial=%d outage_rounds=%d kinds=%s\n"
    !cases !prop_fail (Hashtbl.length distinct) !outages
    (String.concat "," (Hashtbl.fold (fun k v acc -> (k ^ ":" ^ string_of_int v) :: acc) kinds []))
