#!/bin/sh
# Builds the extracted model plus the drivers into ocaml/driver (offline; ocamlfind only).
set -e
cd "$(dirname "$0")"
mkdir -p _build
cp gen/model.ml gen/model.mli util.ml c13.ml c07.ml c05.ml c06.ml ps.ml rr.ml c03.ml c14.ml c04.ml c12.ml srv.ml stall.ml tls.ml shut.ml main.ml _build/
cd _build
ocamlfind ocamlopt -O2 -w -a -package str,unix -linkpkg model.mli model.ml util.ml c13.ml c07.ml c05.ml c06.ml ps.ml rr.ml c03.ml c14.ml c04.ml c12.ml srv.ml stall.ml tls.ml shut.ml main.ml -o ../driver 2>&1 || \
ocamlfind ocamlopt -w -a -package str,unix -linkpkg model.mli model.ml util.ml c13.ml c07.ml c05.ml c06.ml ps.ml rr.ml c03.ml c14.ml c04.ml c12.ml srv.ml stall.ml tls.ml shut.ml main.ml -o ../driver
