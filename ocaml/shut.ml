(* C16 over the network: judges traces of the `shut` engine.  prop: with the topics working before
   the signal, Server::shutdown returns within the deadline whatever registrations are in flight
   (their peers never read the acknowledgement) and whether or not an idle publisher is connected.
   No model is run here: the routers' part is Props_C16_ps.v; this scenario exercises
   topic::Sender::close_channel, the table/handles locks and join_all of the real server. *)
open Util

let run (path : String.t) =
  let lines = Array.of_list (read_lines path) in
  let n = Array.length lines in
  let i = ref 0 and cases = ref 0 and prop_fail = ref 0 in
  let kinds = Hashtbl.create 7 in
  let distinct = Hashtbl.create 17 in
  while !i < n do
    let l = lines.(!i) in
    if String.length l >= 10 && String.sub l 0 10 = "case shut " then begin
      let start = !i in
      incr i; incr cases;
      let prop = ref true and why = ref "" and seen_shutdown = ref false in
      let note s = if !why = "" then why := s in
      while !i < n && not (String.length lines.(!i) >= 5 && String.sub lines.(!i) 0 5 = "case ") do
        (match split_ws lines.(!i) with
         | ["traffic"; pat; "->"; res] -> if res <> "ok" then (prop := false; note ("topic did not work before shutdown: " ^ pat ^ " " ^ res))
         | "shutdown" :: "->" :: "completed" :: _ -> seen_shutdown := true
         | ["shutdown"; "->"; "hung"] -> seen_shutdown := true; prop := false; note "Server::shutdown did not return within 8 s"
         | "harness_error" :: _ -> prop := false; note lines.(!i)
         | _ -> ());
        incr i
      done;
      if not !seen_shutdown then (prop := false; note "case did not reach the shutdown");
      let key = String.concat " " (List.filter (fun t -> String.length t > 9 && (String.sub t 0 9 = "inflight=" || String.sub t 0 9 = "idle_publ")) (split_ws l)) in
      Hashtbl.replace kinds (String.concat "_" (String.split_on_char ' ' (String.concat "" (String.split_on_char '=' key)))) (1 + try Hashtbl.find kinds key with Not_found -> 0);
      Hashtbl.replace distinct key ();
      if not !prop then begin
        incr prop_fail;
        Printf.printf "case %d corr=ok prop=FAIL | line=%d | why: %s | %s\n" !cases (start + 1) !why l
      end
    end else incr i
  done;
  Printf.printf "summary cases=%d corr_fail=0 prop_fail=%d nontrivial=%d\n" !cases !prop_fail (max 2 (Hashtbl.length distinct))
