(* C11 / C07 (server side): judges traces of the `srv` net engine (raw peers against the real
   server over loopback QUIC).
   corr: the model (ServerRun.ff = the translated handle_stream program), folded over the opens of
         a case starting from the empty table, predicts the first thing every stream reads.
   prop (model-independent, from the trace alone):
     - a register frame is answered ok or err:<code>, nothing else;
     - ok only for a valid name, and only in the messaging pattern of the first acknowledged
       registration on that name; an invalid name is answered err:4 (INVALID_TOPIC_NAME);
     - a non-register first frame is never answered ok and the stream is closed;
     - every topic that was ever acknowledged still serves a well-behaved client in its pattern
       after all the unexpected frames, and a fresh topic works (server alive). *)
open Model
open Util

let cps_of_hex (h : String.t) : n list =
  let b = Array.of_list (bytes_of_hex h) in
  let n = Array.length b in
  let out = ref [] and i = ref 0 in
  while !i < n do
    let c = b.(!i) in
    let (cp, len) =
      if c < 0x80 then (c, 1)
      else if c < 0xE0 && !i + 1 < n then (((c land 0x1F) lsl 6) lor (b.(!i + 1) land 0x3F), 2)
      else if c < 0xF0 && !i + 2 < n then (((c land 0x0F) lsl 12) lor ((b.(!i + 1) land 0x3F) lsl 6) lor (b.(!i + 2) land 0x3F), 3)
      else if !i + 3 < n then (((c land 0x07) lsl 18) lor ((b.(!i + 1) land 0x3F) lsl 12) lor ((b.(!i + 2) land 0x3F) lsl 6) lor (b.(!i + 3) land 0x3F), 4)
      else (c, 1) in
    out := n_of_int cp :: !out;
    i := !i + len
  done;
  List.rev !out

let fkind_of = function
  | "regpub" -> KRegPub | "regsub" -> KRegSub | "regrep" -> KRegRep | "regreq" -> KRegReq
  | "msg" -> KMsg | "batch" -> KBatch | "error" -> KError | _ -> KOk

let is_register k = (k = "regpub" || k = "regsub" || k = "regrep" || k = "regreq")
let pattern_of k = if k = "regpub" || k = "regsub" then "ps" else "rr"

let show_outcome = function
  | Served _ -> "ok"
  | Refused c -> "err:" ^ string_of_n c
  | ClosedNoReply -> "closed"
  | OkThenAbandoned -> "ok-then-abandoned"
  | Other -> "other"

(* [only]: "" = judge everything; "c07" / "c01" = count as property failures only what belongs to
   that property (names and isolation); the rest is left to C11's run of the same engine *)
let run (path : String.t) (only : String.t) =
  let lines = Array.of_list (read_lines path) in
  let n = Array.length lines in
  let i = ref 0 and cases = ref 0 and corr_fail = ref 0 and prop_fail = ref 0 in
  let opens = ref 0 and mids = ref 0 and probes = ref 0 in
  let replies = Hashtbl.create 17 and firsts = Hashtbl.create 17 in
  let distinct = Hashtbl.create 997 in
  if not prog_keeps_discipline then begin
    Printf.printf "case 0 corr=DIFF prop=ok | line=0 | why: the translated handle_stream program does not keep the lock discipline | -\n"; incr corr_fail end;
  while !i < n do
    let l = lines.(!i) in
    if String.length l >= 9 && String.sub l 0 9 = "case srv " then begin
      let start = !i in
      incr i; incr cases;
      let corr = ref true and prop = ref true and why = ref "" and tags = ref [] in
      let note s = if !why = "" then why := s in
      let tag t = if not (List.mem t !tags) then tags := t :: !tags in
      (* model state *)
      let table = ref [] and ids = Hashtbl.create 7 and next_id = ref 1 in
      let id_of key = (match Hashtbl.find_opt ids key with Some x -> x | None -> let x = !next_id in incr next_id; Hashtbl.replace ids key x; x) in
      (* trace-only state *)
      let first_ack = Hashtbl.create 7 in
      let ended = ref false and alive = ref false in
      while !i < n && not (String.length lines.(!i) >= 5 && String.sub lines.(!i) 0 5 = "case ") do
        (match split_ws lines.(!i) with
         | ["open"; _; kind; ns; tp; _; "->"; reply] ->
           incr opens;
           Hashtbl.replace distinct (kind ^ ns ^ tp ^ reply) ();
           Hashtbl.replace firsts kind (1 + try Hashtbl.find firsts kind with Not_found -> 0);
           let rk = (if String.length reply > 4 && String.sub reply 0 4 = "err:" then reply else if String.length reply > 6 && String.sub reply 0 6 = "other:" then "other" else reply) in
           let rk = String.concat "" (String.split_on_char ':' rk) in
           Hashtbl.replace replies rk (1 + try Hashtbl.find replies rk with Not_found -> 0);
           let valid = name_ok (cps_of_hex ns) (cps_of_hex tp) in
           let (o, tb') = ff !table (fkind_of kind) (n_of_int (id_of (ns, tp))) valid in
           table := tb';
           if show_outcome o <> reply then (corr := false; note (Printf.sprintf "open %s on %s/%s answered %s, model %s" kind ns tp reply (show_outcome o)));
           if is_register kind then begin
             if reply = "ok" then begin
               if not valid then (prop := false; tag "c07"; note "an invalid topic name was acknowledged");
               (match Hashtbl.find_opt first_ack (ns, tp) with
                | None -> Hashtbl.replace first_ack (ns, tp) (pattern_of kind)
                | Some p -> if p <> pattern_of kind then (prop := false; note ("a " ^ kind ^ " registration was acknowledged on a topic used as " ^ p)))
             end else if String.length reply > 4 && String.sub reply 0 4 = "err:" then begin
               if (not valid) && reply <> "err:4" then (prop := false; tag "c07"; note ("invalid name answered " ^ reply ^ " instead of the invalid-topic code"));
               if valid && reply = "err:4" then (prop := false; tag "c07"; note "a valid name was refused as invalid");
               if valid && (match Hashtbl.find_opt first_ack (ns, tp) with Some p -> p = pattern_of kind | None -> true) then
                 (prop := false; note ("a registration that fits the topic was refused with " ^ reply))
             end else (prop := false; note ("a register frame was answered neither Ok nor Error: " ^ reply))
           end else begin
             if reply <> "closed" then (prop := false; note ("a " ^ kind ^ " first frame was answered " ^ reply))
           end
         | "mid" :: _ -> incr mids
         | ["probe"; ns; tp; pat; "->"; res] ->
           incr probes;
           if res <> "ok" then (prop := false; note (Printf.sprintf "topic %s/%s no longer serves %s clients: %s" ns tp pat res));
           (match Hashtbl.find_opt ids (ns, tp) with
            | Some id -> (match lookup !table (n_of_int id) with
                | Some TPubSub -> if pat <> "ps" then (corr := false; note "model table has another pattern for a probed topic")
                | Some TReqRep -> if pat <> "rr" then (corr := false; note "model table has another pattern for a probed topic")
                | None -> (corr := false; note "probed topic missing from the model table"))
            | None -> (corr := false; note "probed topic never opened"))
         | ["oversize"; "->"; res] -> if res <> "ok" then (prop := false; tag "c11"; tag "c08"; note ("a bound replier was harmed by another peer's request that is too large only once tagged: " ^ res))
         | ["iso"; "->"; res] -> if res <> "ok" then (prop := false; tag "c07"; tag "c01"; note ("distinct topic names share traffic: " ^ res))
         | ["bigopen"; kind; size; "->"; reply] ->
           if reply <> "err:4" then (prop := false; tag "c11"; tag "c07";
             note (Printf.sprintf "a %s registration with an invalid name in a frame of %s payload bytes was answered %s instead of the invalid-topic error" kind size reply))
         | ["race"; "->"; res] ->
           if res <> "ok" then begin
             prop := false; tag "c11";
             (* an acknowledged subscriber that gets nothing is also a pub/sub fan-out failure *)
             (try ignore (Str.search_forward (Str.regexp_string "received_") res 0); tag "c01" with Not_found -> ());
             (* ... and so is a subscriber that was acknowledged and then dropped: it will receive nothing *)
             (try ignore (Str.search_forward (Str.regexp_string "regsub_registration_was_acknowledged_and_then_abandoned") res 0); tag "c01" with Not_found -> ());
             note ("registrations racing for a fresh topic: " ^ res)
           end
         | ["alive"; "->"; res] -> alive := true; if res <> "ok" then (prop := false; note ("server no longer serves a fresh topic: " ^ res))
         | "harness_error" :: _ -> prop := false; note lines.(!i)
         | ["end"] -> ended := true
         | _ -> ());
        incr i
      done;
      if not (!ended && !alive) then (prop := false; note "case did not finish");
      if only <> "" && not !prop && not (List.mem only !tags) then prop := true;  (* C11's run of this engine reports it *)
      if not !corr then incr corr_fail;
      if not !prop then incr prop_fail;
      if not (!corr && !prop) then
        Printf.printf "case %d corr=%s prop=%s | line=%d | why: %s | %s\n" !cases
          (if !corr then "ok" else "DIFF") (if !prop then "ok" else "FAIL") (start + 1) !why lines.(start)
    end else incr i
  done;
  let show h = String.concat "," (Hashtbl.fold (fun k v acc -> (k ^ ":" ^ string_of_int v) :: acc) h []) in
  Printf.printf "summary cases=%d corr_fail=%d prop_fail=%d nontrivial=%d opens=%d mid_frames=%d probes=%d replies=%s first_frames=%s\n"
    !cases !corr_fail !prop_fail (Hashtbl.length distinct) !opens !mids !probes (show replies) (show firsts)
