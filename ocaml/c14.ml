(* C14: judges traces of the `transforms` engine.
   prop: decompress(compress b) = b for every algorithm/mode/level; decode(encode v) re-encodes
         to the same bytes; the wire composition returns the same items.
   corr: for codec cases the model (Transforms.v) decodes the encoding and re-encodes it to the
         same bytes as the implementation. *)
open Model
open Util

let bytes_of (h : String.t) : n list = List.map n_of_int (bytes_of_hex h)
let hex_n (l : n list) = hex_of_ints (List.map int_of_n l)

let run (path : String.t) =
  let lines = Array.of_list (read_lines path) in
  let n = Array.length lines in
  let i = ref 0 and cases = ref 0 and corr_fail = ref 0 and prop_fail = ref 0 in
  let algos = Hashtbl.create 17 and levels = Hashtbl.create 97 and classes = Hashtbl.create 7 in
  let distinct = Hashtbl.create 997 in
  let codec_cases = ref 0 and wire_cases = ref 0 and comp_cases = ref 0 in
  while !i + 1 < n do
    let l = lines.(!i) and r = lines.(!i + 1) in
    (match split_ws l, split_ws r with
     | "case" :: "comp" :: name :: level :: cls :: _, "r" :: res ->
       i := !i + 2; incr cases; incr comp_cases;
       Hashtbl.replace distinct l ();
       Hashtbl.replace algos name (1 + try Hashtbl.find algos name with Not_found -> 0);
       Hashtbl.replace levels (name ^ "@" ^ level) ();
       Hashtbl.replace classes cls (1 + try Hashtbl.find classes cls with Not_found -> 0);
       let prop = (res = ["ok"; "same"]) in
       if not prop then (incr prop_fail;
         Printf.printf "case %d corr=ok prop=FAIL | %s | impl: %s\n" !cases (if String.length l > 2000 then String.sub l 0 2000 else l) r)
     | ["case"; "codec"; kind; enc], "r" :: res ->
       i := !i + 2; incr cases; incr codec_cases;
       Hashtbl.replace distinct l ();
       let e = bytes_of enc in
       let model = (match kind with
         | "string" -> (match string_decode e with Some s -> Some s | None -> None)
         | "bytes" -> bytes_decode e
         | "bincode_dummy" -> (match bincode_decode c_Dummy e with Some v -> Some (bincode_encode c_Dummy v) | None -> None)
         | "bincode_vec" -> (match bincode_decode c_VecString e with Some v -> Some (bincode_encode c_VecString v) | None -> None)
         | _ -> (match bincode_decode c_OptT e with Some v -> Some (bincode_encode c_OptT v) | None -> None)) in
       let prop = (res = ["ok"; enc]) in
       let corr = (match model, res with
         | Some b, ["ok"; h] -> hex_n b = h
         | None, ["err"] -> true
         | _ -> false) in
       if not corr then incr corr_fail;
       if not prop then incr prop_fail;
       if not (corr && prop) then
         Printf.printf "case %d corr=%s prop=%s | %s | impl: %s\n" !cases (if corr then "ok" else "DIFF") (if prop then "ok" else "FAIL") l r
     | "case" :: "wire" :: _ :: _ :: _ :: cnt :: items, "r" :: res ->
       i := !i + 2; incr cases; incr wire_cases;
       Hashtbl.replace distinct l ();
       let prop = (res = "ok" :: cnt :: items) in
       if not prop then (incr prop_fail;
         Printf.printf "case %d corr=ok prop=FAIL | %s | impl: %s\n" !cases (if String.length l > 2000 then String.sub l 0 2000 else l) (if String.length r > 500 then String.sub r 0 500 else r))
     | _ -> incr i)
  done;
  let show h = String.concat "," (Hashtbl.fold (fun k v acc -> (k ^ ":" ^ string_of_int v) :: acc) h []) in
  Printf.printf "summary cases=%d corr_fail=%d prop_fail=%d nontrivial=%d comp_cases=%d codec_cases=%d wire_cases=%d algorithm_level_pairs=%d algos=%s classes=%s\n"
    !cases !corr_fail !prop_fail (Hashtbl.length distinct) !comp_cases !codec_cases !wire_cases (Hashtbl.length levels) (show algos) (show classes)
